/-
  Finite-sum laws used by pv's Sigma normaliser (assumption A-SIGMA of /verif/DESIGN.md),
  proved for every length n against Mathlib.  A sum symbol SUM_k of pv stands for
  `∑ g ∈ Finset.range n, summand_k g`.
-/
import Mathlib

open Finset BigOperators

namespace PvSigma

/-- LIN (homogeneity + additivity + congruence): if every summand is the same linear combination
of m other summands with index-free coefficients, the sums are related by that combination. -/
theorem lin {m : ℕ} (n : ℕ) (c : Fin m → ℝ) (u : Fin m → ℕ → ℝ) (t : ℕ → ℝ)
    (h : ∀ g ∈ range n, t g = ∑ k, c k * u k g) :
    ∑ g ∈ range n, t g = ∑ k, c k * ∑ g ∈ range n, u k g := by
  rw [sum_congr rfl h, sum_comm]
  simp [mul_sum]

/-- CONG: equal summands, equal sums. -/
theorem cong (n : ℕ) (t u : ℕ → ℝ) (h : ∀ g ∈ range n, t g = u g) :
    ∑ g ∈ range n, t g = ∑ g ∈ range n, u g :=
  sum_congr rfl h

/-- MONO: pointwise ≤ gives ≤ of sums. -/
theorem mono (n : ℕ) (t u : ℕ → ℝ) (h : ∀ g ∈ range n, t g ≤ u g) :
    ∑ g ∈ range n, t g ≤ ∑ g ∈ range n, u g :=
  sum_le_sum h

/-- NONNEG. -/
theorem nonneg (n : ℕ) (t : ℕ → ℝ) (h : ∀ g ∈ range n, 0 ≤ t g) :
    0 ≤ ∑ g ∈ range n, t g :=
  sum_nonneg h

/-- CONST: a constant summand sums to n * c. -/
theorem const (n : ℕ) (c : ℝ) : ∑ _g ∈ range n, c = n * c := by
  simp

/-- POS: non-negative summands one of which is positive have a positive sum. -/
theorem pos (n : ℕ) (t : ℕ → ℝ) (h : ∀ g ∈ range n, 0 ≤ t g) (g0 : ℕ) (hg : g0 ∈ range n)
    (h0 : 0 < t g0) : 0 < ∑ g ∈ range n, t g :=
  sum_pos' h ⟨g0, hg, h0⟩

/-- LE-TERM: with non-negative summands every single summand is at most the sum. -/
theorem term_le (n : ℕ) (t : ℕ → ℝ) (h : ∀ g ∈ range n, 0 ≤ t g) (g0 : ℕ) (hg : g0 ∈ range n) :
    t g0 ≤ ∑ g ∈ range n, t g :=
  single_le_sum h hg

/-- PERM: re-indexing by a permutation of the index set leaves the sum unchanged. -/
theorem perm (n : ℕ) (t : Fin n → ℝ) (σ : Equiv.Perm (Fin n)) :
    ∑ g, t (σ g) = ∑ g, t g :=
  Equiv.sum_comp σ t

/-- The C03 lemma in one piece: grain-boundary-migration rates sum to zero when fractions sum to one. -/
theorem rates_sum_zero (n : ℕ) (c : ℝ) (f E : ℕ → ℝ) (hf : ∑ g ∈ range n, f g = 1) :
    ∑ g ∈ range n, c * f g * ((∑ k ∈ range n, f k * E k) - E g) = 0 := by
  have : ∀ g ∈ range n, c * f g * ((∑ k ∈ range n, f k * E k) - E g)
      = (c * (∑ k ∈ range n, f k * E k)) * f g + (-c) * (f g * E g) := by
    intro g _; ring
  rw [sum_congr rfl this, sum_add_distrib, ← mul_sum, ← mul_sum, hf]
  ring

/-- The C09 lemma: renormalised fractions sum to one. -/
theorem renorm_sum_one (n : ℕ) (u : ℕ → ℝ) (hS : ∑ g ∈ range n, u g ≠ 0) :
    ∑ g ∈ range n, u g / (∑ k ∈ range n, u k) = 1 := by
  rw [← sum_div]; exact div_self hS

/-! ### Prefix sums (numpy `cumsum`), used by the C15 contract: `cum k = ∑ i ∈ range (k+1), a i`. -/

/-- the first prefix sum is the first element -/
theorem prefix_zero (a : ℕ → ℝ) : ∑ i ∈ range (0 + 1), a i = a 0 := by simp

/-- each prefix sum is the previous one plus the next element -/
theorem prefix_step (a : ℕ → ℝ) (k : ℕ) :
    ∑ i ∈ range (k + 1 + 1), a i = (∑ i ∈ range (k + 1), a i) + a (k + 1) :=
  sum_range_succ a (k + 1)

/-- the last prefix sum of an array of length n ≥ 1 is the sum of the array -/
theorem prefix_total (a : ℕ → ℝ) (n : ℕ) (hn : 1 ≤ n) :
    ∑ i ∈ range (n - 1 + 1), a i = ∑ i ∈ range n, a i := by
  rw [Nat.sub_add_cancel hn]

/-- prefix sums of non-negative elements ascend -/
theorem prefix_mono (a : ℕ → ℝ) (h : ∀ i, 0 ≤ a i) (k : ℕ) :
    ∑ i ∈ range (k + 1), a i ≤ ∑ i ∈ range (k + 1 + 1), a i := by
  rw [sum_range_succ a (k + 1)]; linarith [h (k + 1)]

end PvSigma
