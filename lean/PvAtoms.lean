/-
  The axioms pv instantiates for its uninterpreted transcendental atoms (assumptions A-POW and A-TRIG of
  /verif/DESIGN.md; `pv/engine.py: pow_axioms, exp_axioms`, `pv/trig.py: axioms`, `pv/sym.py: sym_sqrt`),
  proved against Mathlib for the standard real functions they stand for:

    POW(x, a)   = Real.rpow x a        (Python `x ** a` on floats with x ≥ 0)
    EXP(x)      = Real.exp x
    SIN, COS    = Real.sin, Real.cos
    ACOS(u)     = Real.arccos u
    ATAN2(y, x) = Complex.arg ⟨x, y⟩   (numpy's arctan2(y, x))
    sqrt        = Real.sqrt            (introduced by pv as a witness w with w ≥ 0 ∧ w * w = x)

  What stays assumed is that the floating-point library functions behave like these real functions (S-REAL).
-/
import Mathlib

namespace PvAtoms

/-! ### A-POW -/

theorem pow_zero_base (x a : ℝ) (hx : x = 0) (ha : 0 < a) : x ^ a = 0 := by
  subst hx; exact Real.zero_rpow (ne_of_gt ha)

theorem pow_zero_exp (x a : ℝ) (ha : a = 0) : x ^ a = 1 := by
  subst ha; exact Real.rpow_zero x

theorem pow_pos (x a : ℝ) (hx : 0 < x) : 0 < x ^ a := Real.rpow_pos_of_pos hx a

theorem pow_nonneg (x a : ℝ) (hx : 0 ≤ x) : 0 ≤ x ^ a := Real.rpow_nonneg hx a

theorem pow_one_exp (x a : ℝ) (ha : a = 1) : x ^ a = x := by
  subst ha; exact Real.rpow_one x

theorem pow_one_base (x a : ℝ) (hx : x = 1) : x ^ a = 1 := by
  subst hx; exact Real.one_rpow a

/-- functional congruence (what z3 gets for free for an uninterpreted POW; stated for completeness) -/
theorem pow_congr (x y a b : ℝ) (h : x = y ∧ a = b) : x ^ a = y ^ b := by
  rw [h.1, h.2]

/-! ### EXP -/

theorem exp_pos (x : ℝ) : 0 < Real.exp x := Real.exp_pos x

theorem exp_zero (x : ℝ) (hx : x = 0) : Real.exp x = 1 := by
  subst hx; exact Real.exp_zero

theorem exp_le_one (x : ℝ) (hx : x ≤ 0) : Real.exp x ≤ 1 := Real.exp_le_one_iff.mpr hx

/-! ### sqrt as a defined witness -/

theorem sqrt_witness (x : ℝ) (hx : 0 ≤ x) : 0 ≤ Real.sqrt x ∧ Real.sqrt x * Real.sqrt x = x :=
  ⟨Real.sqrt_nonneg x, Real.mul_self_sqrt hx⟩

/-- the witness is unique: any w ≥ 0 with w * w = x is the square root -/
theorem sqrt_unique (x w : ℝ) (hw : 0 ≤ w) (h : w * w = x) : Real.sqrt x = w := by
  rw [← h]; exact Real.sqrt_mul_self hw

/-! ### A-TRIG -/

theorem sin_sq_add_cos_sq (a : ℝ) : Real.sin a * Real.sin a + Real.cos a * Real.cos a = 1 := by
  have := Real.sin_sq_add_cos_sq a
  nlinarith [this]

/-- the arccos clause: for u ∈ [-1, 1] there is w ≥ 0 with w² = 1 - u², cos (arccos u) = u,
sin (arccos u) = w, and arccos u ∈ [0, π] -/
theorem acos_clause (u : ℝ) (h1 : -1 ≤ u) (h2 : u ≤ 1) :
    ∃ w : ℝ, Real.cos (Real.arccos u) = u ∧ Real.sin (Real.arccos u) = w ∧ 0 ≤ w ∧ w * w = 1 - u * u
      ∧ 0 ≤ Real.arccos u ∧ Real.arccos u ≤ Real.pi := by
  refine ⟨Real.sqrt (1 - u ^ 2), Real.cos_arccos h1 h2, Real.sin_arccos u, Real.sqrt_nonneg _, ?_,
    Real.arccos_nonneg u, Real.arccos_le_pi u⟩
  have : 0 ≤ 1 - u ^ 2 := by nlinarith
  rw [Real.mul_self_sqrt this]; ring

/-- the atan2 clause: with ρ = √(x² + y²): ρ ≥ 0, ρ² = x² + y², and for ρ > 0
cos θ · ρ = x, sin θ · ρ = y, θ ∈ (-π, π], where θ = arg (x + i y) -/
theorem atan2_clause (x y : ℝ) :
    ∃ ρ : ℝ, 0 ≤ ρ ∧ ρ * ρ = x * x + y * y ∧
      (0 < ρ → Real.cos (Complex.arg ⟨x, y⟩) * ρ = x ∧ Real.sin (Complex.arg ⟨x, y⟩) * ρ = y) ∧
      -Real.pi < Complex.arg ⟨x, y⟩ ∧ Complex.arg ⟨x, y⟩ ≤ Real.pi := by
  refine ⟨‖(⟨x, y⟩ : ℂ)‖, norm_nonneg _, ?_, ?_, Complex.neg_pi_lt_arg _, Complex.arg_le_pi _⟩
  · have h := Complex.sq_norm (⟨x, y⟩ : ℂ)
    simp [Complex.normSq_apply] at h
    nlinarith [h]
  · intro hρ
    have hz : (⟨x, y⟩ : ℂ) ≠ 0 := by
      intro h0; rw [h0] at hρ; simp at hρ
    constructor
    · rw [Complex.cos_arg hz]; field_simp
    · rw [Complex.sin_arg]; field_simp

end PvAtoms
