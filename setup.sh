#!/bin/bash
# Build the overlay venv /verif/.env offline (python 3.12 of /venv + solver wheels from the wheelhouse).
set -e
cd "$(dirname "$0")"
ENV=.env
if [ -x "$ENV/bin/python" ] && "$ENV/bin/python" -c "import z3, sympy, numpy, jsonschema" 2>/dev/null; then
  exit 0
fi
rm -rf "$ENV"
/venv/bin/python -m venv "$ENV"
PIP_NO_INDEX=1 "$ENV/bin/python" -m pip install -q --no-index --find-links /opt/veriftools/wheels \
    z3-solver sympy cvc5 deal icontract crosshair-tool jsonschema >/dev/null
SP=$("$ENV/bin/python" -c "import sysconfig; print(sysconfig.get_paths()['purelib'])")
echo "import site; site.addsitedir('/venv/lib/python3.12/site-packages')" > "$SP/zz_repo_deps.pth"
"$ENV/bin/python" -c "import z3, sympy, numpy, scipy, numba; print('env ok', z3.get_version_string())"
