"""Per-property claims for MANIFEST.json (edited by hand, consumed by tools/gen_manifest.py)."""
COMMON_NOTE = ("Trusted: S-REAL (doubles as reals), S-PY/S-NUMPY (CPython and NumPy execute the real code objects on object arrays; "
               "clip/abs/max/where/argsort given documented element-wise meaning), S-NUMBA (JIT output equals the Python source), z3/cvc5 soundness; ")
CHECKS = {
    "C11": dict(category="proof", technique="contract-based deductive verification: VCs from symbolic execution of the real pydrex.tensors code objects, discharged by z3/cvc5",
                text="Every clause of C11 is a postcondition or lemma over contracts of the real pydrex.tensors functions, proved for all symbolic inputs (all 81/36 index tuples enumerated by the code's own loops): index maps, inverses, isometry, transformation law, group action, projector algebra and class-projector characterisation, polar decomposition under the SVD contract, invariants. Proof is the right level: the functions are loop-bounded polynomial maps.",
                note=COMMON_NOTE + "A-QUAT (rotations/orthogonal matrices parametrised by quaternions), A-EIG (SVD contract: M = U diag(S) Vh, orthogonal factors, S >= 0). polar_decompose(left=False) (matrix inverse) is only covered by the bounded stand-in."),
}
CHECKS["C02"] = dict(category="proof", technique="contract-based deductive verification (modular): every pydrex.core helper proved equal to its tensor-form spec, per-grain solver proved equal to an independent transcription of the published D-Rex equations by a chain of per-call lemmas over contract stubs, derivatives with symbolic n_grains (map rule + Sigma terms); z3/cvc5",
    text="For all six (phase, fabric) pairs, every feasible path of the per-grain solver (activity orders enumerated through the argsort contract) and symbolic grain count: rates == published equations, as obligations generated from the real code objects. Bounded stand-ins (labelled): compiled solver vs oracle on random inputs, JIT vs interpreted differential.",
    note=COMMON_NOTE + "A-POW (uninterpreted power/exp with named axioms), A-SIGMA (sum laws, Lean). The oracle specs/drex_published.py is a hand transcription of the papers (trusted as the statement of C02).")
CHECKS["C03"] = dict(category="proof", technique="contract-based deductive verification: safety obligations (division, domain, callee preconditions) on every path of the modular per-grain solver, skew facet with quaternion-parametrised rotations, Sigma-law lemma for zero net volume change with symbolic n_grains; z3/cvc5; Lean for the sum laws",
    text="No reference formula: the code's own outputs are proved skew/zero-sum/linear/finite for all inputs: 6 fabrics, all paths, n_grains symbolic. Bounded stand-in (labelled): native sweep of the compiled solver incl. axis-aligned and zero-volume grains.",
    note=COMMON_NOTE + "A-QUAT, A-SIGMA, A-POW.")
NOT_APPLICABLE = {}
