"""Per-property claims for MANIFEST.json (edited by hand, consumed by tools/gen_manifest.py)."""
COMMON_NOTE = ("Trusted: S-REAL (doubles as reals), S-PY/S-NUMPY (CPython and NumPy execute the real code objects on object arrays; "
               "clip/abs/max/where/argsort given documented element-wise meaning), S-NUMBA (JIT output equals the Python source), z3/cvc5 soundness; ")
CHECKS = {
    "C11": dict(category="proof", technique="contract-based deductive verification: VCs from symbolic execution of the real pydrex.tensors code objects, discharged by z3/cvc5",
                text="Every clause of C11 is a postcondition or lemma over contracts of the real pydrex.tensors functions, proved for all symbolic inputs (all 81/36 index tuples enumerated by the code's own loops): index maps, inverses, isometry, transformation law, group action, projector algebra and class-projector characterisation, polar decomposition under the SVD contract, invariants. Proof is the right level: the functions are loop-bounded polynomial maps.",
                note=COMMON_NOTE + "A-QUAT (rotations/orthogonal matrices parametrised by quaternions), A-EIG (SVD contract: M = U diag(S) Vh, orthogonal factors, S >= 0). polar_decompose(left=False) (matrix inverse) is only covered by the bounded stand-in."),
}
NOT_APPLICABLE = {}
