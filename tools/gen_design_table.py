#!/usr/bin/env python3
"""Regenerate section 0.7 of DESIGN.md (per-property coverage as measured by the last run) from evidence/*.json and seeded/."""
import glob, json, os, re
ROOT = os.path.dirname(os.path.dirname(os.path.abspath(__file__)))
man = json.load(open(os.path.join(ROOT, "MANIFEST.json")))
rows = []
for c in man["checks"]:
    pid = c["property_id"]
    ev = json.load(open(os.path.join(ROOT, "evidence", pid + ".json")))
    cov = ev["coverage"]
    det = [json.load(open(f)) for f in sorted(glob.glob(os.path.join(ROOT, "seeded", pid + "-m*", "detection.json")))]
    seeded = f"{sum(1 for d in det if d['detected'])}/{len(det)}" if det else "-"
    bs = "; ".join(f"{b['evaluations']} cases" for b in cov.get("bounded_standins", []))
    rows.append(f"| {pid} | {ev['level']} | {len(cov.get('functions_under_contract', []))} | {cov['obligations']} / {cov['discharged']} | {len(cov.get('known_finding_obligations', []))} | {bs} | {ev['wall_s']:.0f} s | {seeded} |")
table = ("### 0.7 Coverage per property (quick tier, measured by the last committed run)\n\n"
         "| id | level | functions under contract | obligations / discharged | known-finding obligations | bounded stand-ins | wall | seeded changes detected |\n|---|---|---|---|---|---|---|---|\n"
         + "\n".join(rows) + "\n\nAssumptions used per property are listed in each evidence file (`coverage.trusted_base`).\n")
p = os.path.join(ROOT, "DESIGN.md")
s = open(p).read()
if "### 0.7 Coverage per property" in s:
    s = re.sub(r"### 0\.7 Coverage per property.*?(?=\n---\n\n## 1\. )", table, s, flags=re.S)
else:
    s = s.replace("\n---\n\n## 1. What is being decided", "\n" + table + "\n---\n\n## 1. What is being decided", 1)
open(p, "w").write(s)
print(table)
