#!/bin/bash
# tools/try_patch.sh <patch.diff> <Cxx> [tier]   -- run a check against a scratch copy of /repo with the patch applied.
# Development aid (seeded-defect runs); never touches /repo.  Evidence/replays of such runs are throw-away.
set -u
PATCH=$(readlink -f "$1"); PID=$2; TIER=${3:-quick}
SCR=$(mktemp -d -p /var/tmp pvmut.XXXXXX)
trap 'rm -rf "$SCR"' EXIT
mkdir -p "$SCR/repo" && cp -r /repo/src "$SCR/repo/src"
( cd "$SCR/repo" && patch -s -p1 < "$PATCH" ) || { echo "patch failed"; exit 9; }
find "$SCR/repo/src" -name "*.orig" -delete
cd "$(dirname "$0")/.."
mkdir -p "$SCR/ev"
cp -f evidence/$PID.json "$SCR/ev/" 2>/dev/null
PYDREX_SRC="$SCR/repo/src" ./check "$PID" --tier "$TIER"
rc=$?
cp -f "$SCR/ev/$PID.json" evidence/ 2>/dev/null   # restore the evidence of the unpatched tree
exit $rc
