#!/bin/bash
# tools/seed_matrix.sh [ids...] : run each seeded change against the quick check of the property it breaks (scratch copy of /repo,
# never /repo itself) and record what reports it in seeded/<id>/detection.json and seeded/MATRIX.md
cd "$(dirname "$0")/.."
IDS=${@:-$(ls seeded | grep -E "^C[0-9]+-m[0-9]+$")}
for id in $IDS; do
  pid=${id%%-*}
  out=$(PV_NATIVE_TIMEOUT=${PV_NATIVE_TIMEOUT:-180} tools/try_patch.sh seeded/$id/patch.diff $pid quick 2>&1); rc=$?
  echo "$out" | .env/bin/python -c "
import sys, json, re
txt=sys.stdin.read()
viol=re.findall(r'VIOLATION property=(\S+) replay=\S*/([^/\s]+)\.[0-9a-f]{8}\.json( no-failing-input-found)?', txt)
summ=[l for l in txt.splitlines() if l.startswith('[$pid]')]
json.dump(dict(id='$id', check='./check $pid --tier quick', exit=$rc, detected=$rc==1, violations=len(viol), reported_by=sorted({v[1][:110]+(' (no-failing-input-found)' if v[2] else '') for v in viol})[:6], summary=summ[-1] if summ else ''), open('seeded/$id/detection.json','w'), indent=1)
"
  echo "$id rc=$rc"
done
.env/bin/python - <<'PY'
import json, glob, os
rows=[]
for d in sorted(glob.glob('seeded/C*-m*')):
    if not os.path.exists(d+'/detection.json'): continue
    m=json.load(open(d+'/meta.json')); t=json.load(open(d+'/detection.json'))
    rows.append((m['id'], (m.get('summary') or '')[:110].replace('|','/'), 'yes' if t['detected'] else 'NO', '; '.join(t['reported_by'][:2])[:160].replace('|','/')))
with open('seeded/MATRIX.md','w') as f:
    f.write('# Seeded changes vs. the quick check of the property they break\n\n| change | what it does | detected | reported by (first obligations / stand-ins) |\n|---|---|---|---|\n')
    for r in rows: f.write('| %s | %s | %s | %s |\n' % r)
    f.write('\n%d of %d detected.\n' % (sum(1 for r in rows if r[2]=='yes'), len(rows)))
print(open('seeded/MATRIX.md').read()[-200:])
PY
