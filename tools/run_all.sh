#!/bin/bash
# Run every registered quick check on /repo as it is (regenerates /verif/evidence/*.json), then validate the evidence.
cd "$(dirname "$0")/.."
TIER=${1:-quick}
rc=0
for id in $(.env/bin/python -c "import json;print(' '.join(c['property_id'] for c in json.load(open('MANIFEST.json'))['checks']))"); do
  s=$(date +%s)
  out=$(./check $id --tier $TIER 2>&1); r=$?
  echo "$id exit=$r $(( $(date +%s) - s ))s  $(echo "$out" | grep -E "^\[$id\]" | tail -1)"
  echo "$out" | grep -E "VIOLATION|KNOWN-FINDING|CHECKER-FAILURE" | head -5
  [ $r -ne 0 ] && rc=1
done
.env/bin/python - <<'PY'
import json, jsonschema, glob
sch=json.load(open('/root/.vp/EVIDENCE.schema.json'))
man=json.load(open('MANIFEST.json'))
for c in man['checks']:
    ev=json.load(open(c['evidence_file']))
    jsonschema.validate(ev, sch)
    if ev['level']!=c['level_claimed']['category']:
        print("LEVEL MISMATCH", c['property_id'], ev['level'], c['level_claimed']['category'])
print("evidence validated for", len(man['checks']), "checks")
PY
exit $rc
