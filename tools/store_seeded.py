#!/usr/bin/env python3
"""tools/store_seeded.py <out-dir of the sub-agents> <dir of confirmation records> <first index>

Stores confirmed seeded changes under seeded/<Cxx>-m<k>/ (patch.diff, demo.py, meta.json).  A change is stored only
when its confirmation record (written by the confirmation run in a scratch worktree) says: patch applies, demonstration
exits 0 without and non-zero with the patch, full existing suite passes with the patch."""
import json
import os
import shutil
import sys

src, conf, first = sys.argv[1], sys.argv[2], int(sys.argv[3])
root = os.path.join(os.path.dirname(os.path.abspath(__file__)), "..", "seeded")
for rec in sorted(os.listdir(conf)):
    c = json.load(open(os.path.join(conf, rec)))
    pid, k = c["id"], c["k"]
    ok = c["applies"] == 0 and c["demo_clean_exit"] == 0 and c["demo_patched_exit"] != 0 and c["suite_exit"] == 0
    sid = f"{pid}-m{first + k - 1}"
    if not ok:
        print("NOT stored (unconfirmed):", sid, c)
        continue
    d = os.path.join(root, sid)
    os.makedirs(d, exist_ok=True)
    shutil.copy(os.path.join(src, pid, f"m{k}.diff"), os.path.join(d, "patch.diff"))
    shutil.copy(os.path.join(src, pid, f"demo{k}.py"), os.path.join(d, "demo.py"))
    m = json.load(open(os.path.join(src, pid, f"meta{k}.json")))
    meta = dict(
        id=sid,
        breaks_property=pid,
        summary=m.get("summary", ""),
        needs_to_manifest=m.get("needs_to_manifest", ""),
        files_touched=m.get("files_touched", []),
        author="sub-agent (later round: told which kinds of edit earlier rounds had used and asked for other kinds) given only the property text and a scratch worktree of /repo (HEAD with the fix: commits)",
        confirmed=dict(
            how="scratch worktree of /repo HEAD: `git apply patch.diff`; `PYTHONPATH=<wt>/src /venv/bin/python demo.py` before and after; full suite `python -m pytest -q -p no:cacheprovider --timeout=900 tests` with the patch; worktree removed afterwards",
            patch_applies=True,
            demo_exit_without_patch=c["demo_clean_exit"],
            demo_exit_with_patch=c["demo_patched_exit"],
            suite_exit_with_patch=c["suite_exit"],
            suite_summary=c["suite_summary"],
        ),
    )
    json.dump(meta, open(os.path.join(d, "meta.json"), "w"), indent=1)
    print("stored", sid)
