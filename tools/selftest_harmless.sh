#!/bin/bash
# tools/selftest_harmless.sh [patch names...] : apply every harmless refactoring of selftest/harmless/ to a scratch copy of /repo
# and run the quick checks of the properties whose code it touches.  A harmless change must never produce a VIOLATION line or a
# checker failure (undecided obligations are allowed).  Prints one line per (patch, check); exit 1 if any alarm was raised.
cd "$(dirname "$0")/.."
PATCHES=${@:-$(ls selftest/harmless/*.diff | xargs -n1 basename | sed 's/\.diff$//')}
checks_for() {
  local f="$1" out=""
  grep -q "pydrex/core.py" "$f" && out="$out C02 C03 C04 C07"
  grep -q "pydrex/minerals.py" "$f" && out="$out C01 C06 C08 C09 C10 C17"
  grep -q "pydrex/utils.py" "$f" && out="$out C01 C09 C13"
  grep -q "pydrex/tensors.py" "$f" && out="$out C11 C12 C10 C06"
  grep -q "pydrex/stats.py" "$f" && out="$out C13 C14 C15 C20"
  grep -q "pydrex/diagnostics.py" "$f" && out="$out C12 C13 C14"
  grep -q "pydrex/io.py" "$f" && out="$out C16 C19"
  grep -q "pydrex/velocity.py\|pydrex/pathlines.py" "$f" && out="$out C18"
  grep -q "pydrex/geometry.py" "$f" && out="$out C20 C14"
  echo $out | tr ' ' '\n' | sort -u | tr '\n' ' '
}
rc=0
for p in $PATCHES; do
  f=selftest/harmless/$p.diff
  for c in $(checks_for $f); do
    out=$(tools/try_patch.sh $f $c quick 2>&1); r=$?
    alarms=$(echo "$out" | grep -c "^VIOLATION\|CHECKER-FAILURE")
    summ=$(echo "$out" | grep -E "^\[$c\]" | tail -1)
    if [ $r -ne 0 ] || [ "$alarms" != "0" ]; then rc=1; echo "ALARM $p $c exit=$r $summ"; echo "$out" | grep "^VIOLATION\|CHECKER-FAILURE" | head -3; else echo "ok    $p $c $summ"; fi
  done
done
exit $rc
