#!/usr/bin/env python3
"""Regenerate /verif/MANIFEST.json from the table below (kept valid against /root/.vp/MANIFEST.schema.json)."""
import json, os, sys
ROOT = os.path.dirname(os.path.dirname(os.path.abspath(__file__)))
sys.path.insert(0, ROOT)
from tools.manifest_table import CHECKS, NOT_APPLICABLE

props = [json.loads(l)["id"] for l in open(os.path.join(ROOT, "properties.jsonl"))]
checks = []
for pid in props:
    if pid not in CHECKS:
        continue
    c = CHECKS[pid]
    checks.append(dict(
        property_id=pid,
        quick_cmd=f"./check {pid} --tier quick",
        thorough_cmd=f"./check {pid} --tier thorough",
        evidence_file=f"/verif/evidence/{pid}.json",
        replay_cmd_template="./check replay {path}",
        engine="pv",
        level_claimed=dict(category=c["category"], text=c["text"], design_ref=c.get("design_ref", f"DESIGN.md section 6 ({pid})")),
        level_note=c["note"],
        technique=c["technique"],
    ))
na = [dict(property_id=p, reason=NOT_APPLICABLE.get(p, "check not built yet in this round; see DESIGN.md")) for p in props if p not in CHECKS]
m = dict(
    version=1,
    setup_cmd="./setup.sh",
    hooks=dict(guard="SEISMIC_ANISOTROPY_PYDREX_VERIF", enable="no source hooks are needed: contracts are sidecar files in /verif and the closures are reached through the LSODA stub; checks export SEISMIC_ANISOTROPY_PYDREX_VERIF=1 for uniformity",
               baseline_off_cmd="cd /repo && /venv/bin/python -m pytest -ra -q -p no:cacheprovider --timeout=900 --continue-on-collection-errors", source_commits=[], add_only=True),
    engines=[dict(name="pv", path="/verif/pv", serves_properties=sorted(CHECKS), kind_free_text="VC generation by symbolic execution of the real PyDRex code objects (NUMBA_DISABLE_JIT=1, module globals rebound to contract stubs) over z3 reals in NumPy object arrays; obligations discharged by z3 5.1 / cvc5 / z3 4.8; refutations replayed natively (JIT on); bounded stand-ins are native scenario sweeps")],
    checks=checks,
    notes="Contract-based deductive verification of the real code; see DESIGN.md. exit 0 held / 1 violation / 3 checker failure.",
    not_applicable=na,
)
json.dump(m, open(os.path.join(ROOT, "MANIFEST.json"), "w"), indent=1)
import jsonschema
jsonschema.validate(m, json.load(open("/root/.vp/MANIFEST.schema.json")))
print("MANIFEST ok:", len(checks), "checks,", len(na), "not applicable")
