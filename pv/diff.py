"""A-DIFF: structural differentiation of the term language (sum, product, quotient, SIN, COS, ATAN2, POW with a constant
integer exponent).  Part of the trusted base; cross-checked against sympy in the thorough tier."""
import z3

from . import sym as S


class NotDifferentiable(Exception):
    pass


def d(t, x, cache=None):
    """Partial derivative of real term t with respect to the constant x."""
    if cache is None:
        cache = {}
    key = t.get_id()
    if key in cache:
        return cache[key]
    zero, one = z3.RealVal(0), z3.RealVal(1)
    if z3.eq(t, x):
        r = one
    elif z3.is_rational_value(t) or z3.is_int_value(t):
        r = zero
    elif z3.is_app(t) and t.num_args() == 0:
        r = zero
    elif z3.is_app(t):
        k = t.decl().kind()
        name = t.decl().name()
        a = [t.arg(i) for i in range(t.num_args())]
        if k == z3.Z3_OP_ADD:
            r = sum((d(ai, x, cache) for ai in a), zero)
        elif k == z3.Z3_OP_SUB:
            r = d(a[0], x, cache)
            for ai in a[1:]:
                r = r - d(ai, x, cache)
        elif k == z3.Z3_OP_UMINUS:
            r = -d(a[0], x, cache)
        elif k == z3.Z3_OP_MUL:
            r = zero
            for i in range(len(a)):
                term = d(a[i], x, cache)
                for j in range(len(a)):
                    if j != i:
                        term = term * a[j]
                r = r + term
        elif k == z3.Z3_OP_DIV:
            u, v = a
            r = (d(u, x, cache) * v - u * d(v, x, cache)) / (v * v)
        elif name == "SIN":
            r = S.COS(a[0]) * d(a[0], x, cache)
        elif name == "COS":
            r = -S.SIN(a[0]) * d(a[0], x, cache)
        elif name == "ATAN2":
            yy, xx = a
            r = (xx * d(yy, x, cache) - yy * d(xx, x, cache)) / (xx * xx + yy * yy)
        elif k == z3.Z3_OP_TO_REAL:
            r = zero
        else:
            raise NotDifferentiable(f"{name} is outside the term language")
    else:
        raise NotDifferentiable(str(t)[:60])
    cache[key] = r
    return r


def to_sympy(t, env):
    """z3 term -> sympy expression (for the cross-check)."""
    import sympy as sp

    if z3.is_rational_value(t):
        return sp.Rational(t.numerator_as_long(), t.denominator_as_long())
    if z3.is_app(t) and t.num_args() == 0:
        return env.setdefault(t.decl().name(), sp.Symbol(t.decl().name(), real=True))
    k = t.decl().kind()
    a = [to_sympy(t.arg(i), env) for i in range(t.num_args())]
    name = t.decl().name()
    if k == z3.Z3_OP_ADD:
        return sum(a)
    if k == z3.Z3_OP_SUB:
        r = a[0]
        for v in a[1:]:
            r -= v
        return r
    if k == z3.Z3_OP_UMINUS:
        return -a[0]
    if k == z3.Z3_OP_MUL:
        r = a[0]
        for v in a[1:]:
            r *= v
        return r
    if k == z3.Z3_OP_DIV:
        return a[0] / a[1]
    if name == "SIN":
        return sp.sin(a[0])
    if name == "COS":
        return sp.cos(a[0])
    if name == "ATAN2":
        return sp.atan2(a[0], a[1])
    raise NotDifferentiable(name)
