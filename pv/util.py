"""Small helpers shared by the contract modules."""
import itertools
import os
import sys

import numpy as _np
import z3

from . import sym as S
from .sym import zz


def Z(a):
    """object array of z3 terms from an array of Sym / numbers."""
    a = _np.asarray(a, dtype=object)
    out = _np.empty(a.shape, dtype=object)
    for ix in _np.ndindex(*a.shape):
        out[ix] = zz(a[ix])
    return out


def alleq(a, b):
    za, zb = Z(a), Z(b)
    if za.shape != zb.shape:
        return z3.BoolVal(False)
    return z3.And(*[x == y for x, y in zip(za.flat, zb.flat)]) if za.size else z3.BoolVal(True)


def entries(a):
    a = _np.asarray(a, dtype=object)
    for ix in _np.ndindex(*a.shape):
        yield ix, a[ix]


def sumsq(a):
    r = 0
    for v in _np.asarray(a, dtype=object).flat:
        r = r + v * v
    return r


def real_module(name):
    """Import a pydrex module from the tree under verification (PV_SRC) with the JIT disabled."""
    assert os.environ.get("NUMBA_DISABLE_JIT") == "1", "symbolic side must run with NUMBA_DISABLE_JIT=1"
    import importlib

    m = importlib.import_module(name)
    src = os.environ.get("PV_SRC", "/repo/src")
    f = os.path.realpath(getattr(m, "__file__", ""))
    if not f.startswith(os.path.realpath(src)):
        raise RuntimeError(f"{name} imported from {f}, expected under {src}")
    return m


def fn_or_none(g, name):
    return g.get(name)
