"""Functions executed in the native worker (real PyDRex, JIT enabled)."""
import importlib

import numpy as np


def _arr(x):
    if isinstance(x, dict) and "__arr__" in x:
        return np.array(x["__arr__"], dtype=x.get("dtype", float))
    if isinstance(x, dict) and "__int__" in x:
        return int(x["__int__"])
    if isinstance(x, dict) and "__enum__" in x:
        mod, cls, val = x["__enum__"]
        return getattr(importlib.import_module(mod), cls)(val)
    if isinstance(x, list):
        return [_arr(v) for v in x]
    return x


def _out(r):
    if isinstance(r, tuple):
        return [_out(v) for v in r]
    if isinstance(r, list):
        return [_out(v) for v in r]
    if isinstance(r, np.ndarray):
        return r.tolist()
    if isinstance(r, (np.floating, np.integer)):
        return r.item()
    if isinstance(r, dict):
        return {k: _out(v) for k, v in r.items()}
    return r


def call_fn(module, func, args, kwargs=None):
    """Call module.func(*args) on the real code; arrays are given as {"__arr__": nested list}."""
    m = importlib.import_module(module)
    f = m
    for part in func.split("."):
        f = getattr(f, part)
    try:
        r = f(*[_arr(a) for a in args], **{k: _arr(v) for k, v in (kwargs or {}).items()})
        return dict(ok=True, value=_out(r))
    except Exception as e:
        return dict(ok=False, exc=type(e).__name__, msg=str(e)[:300])


def enc(a):
    if isinstance(a, np.ndarray):
        return {"__arr__": a.tolist(), "dtype": "int64" if np.issubdtype(a.dtype, np.integer) else "float64"}
    if isinstance(a, (np.integer,)):
        return int(a)
    if isinstance(a, (np.floating,)):
        return float(a)
    return a
