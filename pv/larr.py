"""Lifted arrays: leading length is a symbolic integer n (grain count).

LArr(n, inner_shape, fn)   element at generic index i is fn(i) -> Sym or ndarray(object) of inner_shape
Sigma                      registry of sum symbols SUM_k = sum_{g<n} summand_k(g) and derivations by the
                           finite-sum laws (proved for all n in lean/PvSigma.lean, assumption A-SIGMA)
sym_range / LoopRule       the map / reduce rules for `for g in range(n)` (DESIGN 2.5)
"""
from __future__ import annotations

import numpy as _np
import z3

from . import sym as S
from .sym import RS, IS, LiftedBase, Sym, SymBool, SymInt, Unsupported, zz

G = z3.Int("g!")  # canonical generic index


def subst(t, old, new):
    return z3.substitute(t, (old, new))


def _map_el(f, a):
    if isinstance(a, _np.ndarray):
        out = _np.empty(a.shape, dtype=object)
        for ix in _np.ndindex(*a.shape):
            out[ix] = f(a[ix])
        return out.view(S.SymArray)
    return f(a)


def _zip_el(f, a, b):
    if isinstance(a, _np.ndarray) or isinstance(b, _np.ndarray):
        return S.ew(f, a, b)
    return f(a, b)


class LArr(LiftedBase):
    """Array of symbolic length n; element access only at symbolic indices."""

    __array_priority__ = 2000
    __array_ufunc__ = None

    def __init__(self, n, inner, fn, name=None):
        self.n, self.inner, self.fn, self.name = n, tuple(inner), fn, name
        self.written_at = None
        self.writes = 0

    @property
    def shape(self):
        return (self.n,) + self.inner

    @property
    def ndim(self):
        return 1 + len(self.inner)

    def __len__(self):
        raise Unsupported("len() of a lifted array (symbolic length)")

    def at(self, i=G):
        with S.quiet():
            return self.fn(i)

    def _probe(self, f, o):
        """Record, once and at the generic index, the obligations of applying f element-wise."""
        if S.Ctx.cur is None or S.QUIET[0]:
            return
        with S.quiet():
            av = self.fn(G)
            bv = o.fn(G) if isinstance(o, LArr) else o
        if isinstance(o, LArr):
            _zip_el(f, av, bv)
        else:
            _map_el(lambda v: f(v, bv), av)

    def copy(self):
        return LArr(self.n, self.inner, self.fn, self.name)

    # element-wise
    def _ew(self, o, f):
        self._probe(f, o)
        if isinstance(o, LArr):
            return LArr(self.n, _np.broadcast_shapes(self.inner, o.inner), lambda i, a=self.fn, b=o.fn: _zip_el(f, a(i), b(i)))
        if isinstance(o, _np.ndarray):
            raise Unsupported("lifted array combined with a concrete-length array")
        return LArr(self.n, self.inner, lambda i, a=self.fn: _map_el(lambda v: f(v, o), a(i)))

    def __add__(s, o): return s._ew(o, lambda a, b: a + b)
    def __radd__(s, o): return s._ew(o, lambda a, b: b + a)
    def __sub__(s, o): return s._ew(o, lambda a, b: a - b)
    def __rsub__(s, o): return s._ew(o, lambda a, b: b - a)
    def __mul__(s, o): return s._ew(o, lambda a, b: a * b)
    def __rmul__(s, o): return s._ew(o, lambda a, b: b * a)
    def __truediv__(s, o): return s._ew(o, lambda a, b: a / b)
    def __neg__(s): return LArr(s.n, s.inner, lambda i, a=s.fn: _map_el(lambda v: -v, a(i)))
    def __pow__(s, o): return s._ew(o, lambda a, b: a ** b)
    def __abs__(s): return LArr(s.n, s.inner, lambda i, a=s.fn: _map_el(abs, a(i)))
    def __lt__(s, o): return s._ew(o, lambda a, b: a < b)
    def __le__(s, o): return s._ew(o, lambda a, b: a <= b)
    def __gt__(s, o): return s._ew(o, lambda a, b: a > b)
    def __ge__(s, o): return s._ew(o, lambda a, b: a >= b)

    def __itruediv__(s, o):
        s.fn = s._ew(o, lambda a, b: a / b).fn
        return s

    def __imul__(s, o):
        s.fn = s._ew(o, lambda a, b: a * b).fn
        return s

    def __iadd__(s, o):
        s.fn = s._ew(o, lambda a, b: a + b).fn
        return s

    def clip(s, lo=None, hi=None, **k):
        lo = k.get("min", lo)
        hi = k.get("max", hi)
        return LArr(s.n, s.inner, lambda i, a=s.fn: _map_el(lambda v: S.s_clip(v, lo, hi), a(i)))

    def reshape(s, *shape):
        if len(shape) == 1 and isinstance(shape[0], tuple):
            shape = shape[0]
        lead = shape[0]
        if not (isinstance(lead, SymInt) and lead.same(s.n)):
            raise Unsupported(f"reshape of a lifted array to leading length {lead}")
        inner = tuple(int(x) for x in shape[1:])
        if int(_np.prod(inner, dtype=int)) != int(_np.prod(s.inner, dtype=int)):
            raise ValueError("cannot reshape lifted array: inner sizes differ")
        return LArr(s.n, inner, lambda i, a=s.fn: _reshape_el(a(i), inner))

    def flatten(s):
        return Flat(s)

    def transpose(s, *axes):
        raise Unsupported("transpose of a lifted array")

    def sum(s, *a, **k):
        if s.inner != ():
            raise Unsupported("sum over a lifted array of non-scalars")
        return Sigma.cur.register(s)

    def __getitem__(s, key):
        if isinstance(key, SymInt):
            with S.quiet():
                return s.fn(key.z)
        if isinstance(key, tuple) and key and isinstance(key[0], SymInt):
            with S.quiet():
                el = s.fn(key[0].z)
            rest = tuple(k for k in key[1:] if k is not Ellipsis)
            return el[rest] if rest else el
        m = _lmask(key)
        if m is not None:
            return LMasked(s, m)
        if isinstance(key, tuple) and key and isinstance(key[0], slice) and key[0] == slice(None) and all(isinstance(k, (int, _np.integer)) for k in key[1:]):
            rest = tuple(int(k) for k in key[1:])  # a[:, i, j]: the (i, j) component of every grain
            inner = s.inner[len(rest):]
            return LArr(s.n, inner, lambda i, a=s.fn, rest=rest: a(i)[rest])
        raise Unsupported(f"index {key!r} on a lifted array")

    def __setitem__(s, key, val):
        m = _lmask(key)
        if m is not None:
            old = s.fn
            if isinstance(val, LMasked):
                if val.mask is not m:
                    raise Unsupported("masked assignment between different masks")
                src = val.arr.fn
                s.fn = lambda i, m=m, src=src, old=old: _zip_where(m.fn(i), src(i), old(i))
            elif isinstance(val, LArr):
                raise Unsupported("assigning a whole lifted array under a mask")
            else:
                s.fn = lambda i, m=m, val=val, old=old: _zip_where(m.fn(i), val, old(i))
            s.writes += 1
            return
        k0 = key[0] if isinstance(key, tuple) else key
        if isinstance(k0, SymInt):
            rule = LoopRule.cur
            if rule is None or rule.var is None or not z3.eq(k0.z, rule.var.z):
                raise Unsupported("write to a lifted array at an index that is not the loop variable (map rule)")
            if isinstance(key, tuple) and len(key) > 1:
                raise Unsupported("partial element write to a lifted array")
            gz = k0.z
            if isinstance(val, _np.ndarray):
                zs = _np.empty(val.shape, dtype=object)
                for ix in _np.ndindex(*val.shape):
                    zs[ix] = zz(val[ix])
                s.fn = lambda i, zs=zs, gz=gz: _map_el(lambda t: Sym(subst(t, gz, i)), zs)
            else:
                vz = zz(val)
                s.fn = lambda i, vz=vz, gz=gz: Sym(subst(vz, gz, i))
            s.written_at = k0
            rule.written.append(s)
            return
        raise Unsupported(f"assignment index {key!r} on a lifted array")


def _reshape_el(el, inner):
    if isinstance(el, _np.ndarray):
        return el.reshape(inner)
    if inner == ():
        return el
    raise Unsupported("reshape of scalar element")


def _zip_where(m, a, b):
    if isinstance(a, _np.ndarray) or isinstance(b, _np.ndarray):
        return S.ew(lambda x, y: S.s_where(m, x, y), a, b)
    return S.s_where(m, a, b)


def _lmask(key):
    k0 = key[0] if isinstance(key, tuple) and key else key
    if isinstance(k0, LArr) and k0.inner == ():
        probe = k0.fn(G)
        if isinstance(probe, SymBool):
            if isinstance(key, tuple):
                for r in key[1:]:
                    if not (isinstance(r, slice) and r == slice(None)) and r is not Ellipsis:
                        raise Unsupported("mixed mask indexing on a lifted array")
            return k0
    return None


class LMasked:
    def __init__(self, arr, mask):
        self.arr, self.mask = arr, mask


class Flat(LiftedBase):
    """Row-major flattening of a lifted array (only usable for packing / element-wise scaling)."""

    __array_ufunc__ = None

    def __init__(self, arr):
        self.arr = arr

    def __mul__(s, o):
        return Flat(s.arr * o)

    __rmul__ = __mul__

    def __add__(s, o):
        return Flat(s.arr + o)

    __radd__ = __add__

    def __abs__(s):
        return Flat(abs(s.arr))


class Packed(LiftedBase):
    """Result of hstack over concrete and lifted parts: a y-vector of symbolic length."""

    __array_ufunc__ = None

    def __init__(self, parts):
        self.parts = parts

    def block(self, k):
        p = self.parts[k]
        return p.arr if isinstance(p, Flat) else p

    def _map(s, f):
        return Packed([f(p) for p in s.parts])

    def __mul__(s, o):
        if isinstance(o, Packed):
            raise Unsupported("product of two packed vectors")
        return s._map(lambda p: p * o)

    __rmul__ = __mul__

    def __add__(s, o):
        if isinstance(o, Packed):
            raise Unsupported("sum of two packed vectors")
        return s._map(lambda p: p + o)

    __radd__ = __add__

    def __abs__(s):
        return s._map(lambda p: abs(p) if not isinstance(p, _np.ndarray) else S.ew(abs, p))

    def copy(s):
        return Packed([p.copy() if hasattr(p, "copy") else p for p in s.parts])


class YVec(LiftedBase):
    """The ODE state vector y = [F (9) | orientations (9n) | fractions (n)] with symbolic n."""

    __array_ufunc__ = None

    def __init__(self, n, F9, O, f):
        self.n, self.F9, self.O, self.f = n, F9, O, f
        self.writes = []

    def copy(self):
        return YVec(self.n, self.F9.copy(), self.O.copy(), self.f.copy())

    def squeeze(self):
        return self

    def _bounds(self, sl):
        if not isinstance(sl, slice) or sl.step is not None:
            raise Unsupported("non-slice index on the lifted state vector")
        return sl.start, sl.stop

    def _is(self, v, kind):
        n = self.n
        if kind == "0":
            return v is None or (isinstance(v, int) and v == 0)
        if kind == "9":
            return isinstance(v, int) and v == 9
        if kind == "9n+9":
            return isinstance(v, SymInt) and v.same(n * 9 + 9)
        if kind == "10n+9":
            return v is None or (isinstance(v, SymInt) and v.same(n * 10 + 9))
        return False

    def __getitem__(self, key):
        a, b = self._bounds(key)
        if self._is(a, "0") and self._is(b, "9"):
            return self.F9  # a view, like NumPy
        if self._is(a, "9") and self._is(b, "9n+9"):
            return FlatBlock(self.O)
        if self._is(a, "9n+9") and self._is(b, "10n+9"):
            return self.f  # a view
        raise Unsupported(f"slice [{a}:{b}] of the lifted state vector")

    def __setitem__(self, key, val):
        a, b = self._bounds(key)
        if self._is(a, "9") and b is None:
            if not isinstance(val, Packed) or len(val.parts) != 2:
                raise Unsupported("assignment to y[9:] of something that is not hstack((orientations.flatten(), fractions))")
            O, f = val.block(0), val.block(1)
            self.O, self.f = O, f
            self.writes.append("9:")
            return
        raise Unsupported(f"assignment to slice [{a}:{b}] of the lifted state vector")


class FlatBlock(LiftedBase):
    """y[9:9n+9]: the flattened orientation block, reshape((n,3,3)) gives the lifted array back."""

    def __init__(self, O):
        self.O = O

    def reshape(self, *shape):
        if len(shape) == 1 and isinstance(shape[0], tuple):
            shape = shape[0]
        if isinstance(shape[0], SymInt) and shape[0].same(self.O.n) and tuple(shape[1:]) == (3, 3):
            return LArr(self.O.n, (3, 3), self.O.fn)
        raise Unsupported(f"reshape{shape} of the orientation block")


def uf(name, inner=()):
    """Uninterpreted per-grain data: f(g) or A_ij(g)."""

    def fn(i):
        if inner == ():
            return Sym(z3.Function(name, IS, RS)(i))
        out = _np.empty(inner, dtype=object)
        for ix in _np.ndindex(*inner):
            out[ix] = Sym(z3.Function(name + "_" + "_".join(map(str, ix)), IS, RS)(i))
        return out.view(S.SymArray)

    return fn


def larr(name, n, inner=()):
    return LArr(n, inner, uf(name, inner), name)


# ----------------------------------------------------------------------------- loops over range(n)
class LoopRule:
    """Map / reduce rule for `for g in range(n)` with symbolic n: the body is executed once for a
    fresh generic g (0 <= g < n).  Side conditions are checked while it runs (writes only at [g])
    and afterwards on the AST of the loop body (no local carried across iterations)."""

    cur = None

    def __init__(self):
        self.var = None
        self.written = []
        self.loops = 0


def sym_range(*args):
    if len(args) == 1 and isinstance(args[0], SymInt):
        n = args[0]
        rule = LoopRule.cur
        if rule is None:
            raise Unsupported("range(symbolic) outside a LoopRule scope")
        c = S.ctx()
        g = SymInt(z3.Int(c.fresh("gloop")))
        rule.var = g
        rule.loops += 1
        c.assume(z3.And(g.z >= 0, g.z < n.z))
        yield g  # one generic iteration
        rule.var = None
        return
    if any(isinstance(a, SymInt) for a in args):
        raise Unsupported("range() with symbolic bounds other than range(n)")
    yield from range(*args)


class NPLift(S.NPShim):
    """np shim that also allocates lifted arrays when the leading length is symbolic."""

    def _lifted(self, shape, init):
        if isinstance(shape, SymInt):
            return LArr(shape, (), lambda i: init)
        if isinstance(shape, tuple) and shape and isinstance(shape[0], SymInt):
            inner = tuple(int(x) for x in shape[1:])

            def fn(i, inner=inner):
                o = _np.empty(inner, dtype=object)
                for ix in _np.ndindex(*inner):
                    o[ix] = init
                return o.view(S.SymArray)

            return LArr(shape[0], inner, fn)
        return None

    def zeros(self, shape, *a, **k):
        r = self._lifted(shape, 0)
        return r if r is not None else super().zeros(shape, *a, **k)

    def empty(self, shape, *a, **k):
        r = self._lifted(shape, 0)
        return r if r is not None else super().empty(shape, *a, **k)

    def sum(self, a, *args, **k):
        if isinstance(a, LArr):
            return a.sum()
        return super().sum(a, *args, **k)

    def abs(self, a):
        if isinstance(a, (LArr, Packed, Flat)):
            return abs(a)
        return super().abs(a)

    def hstack(self, tup, **k):
        if any(isinstance(t, LiftedBase) for t in tup):
            conc = [t for t in tup if not isinstance(t, LiftedBase)]
            lifted = [t for t in tup if isinstance(t, LiftedBase)]
            return Packed(list(conc) + list(lifted)) if conc else Packed(list(lifted))
        return _np.hstack(tup, **k)

    def zeros_like(self, a, *args, **k):
        if isinstance(a, YVec):
            return YVec(a.n, S.to_obj(_np.zeros(9)), LArr(a.n, (3, 3), lambda i: S.to_obj(_np.zeros((3, 3)))), LArr(a.n, (), lambda i: 0))
        return super().zeros_like(a, *args, **k)

    def repeat(self, a, repeats, axis=None):
        if isinstance(repeats, SymInt):
            return RepeatN(a, repeats)
        return _np.repeat(a, repeats, axis)


class RepeatN(LiftedBase):
    """np.repeat(M (3x3), n).reshape(3,3,n).transpose() == n copies of M^T (the idiom used in derivatives)."""

    def __init__(self, a, n):
        self.a, self.n, self.stage = _np.asarray(a, dtype=object), n, 0

    def reshape(self, *shape):
        if len(shape) == 1 and isinstance(shape[0], tuple):
            shape = shape[0]
        if self.stage == 0 and len(shape) == 3 and shape[0] == 3 and shape[1] == 3 and isinstance(shape[2], SymInt) and shape[2].same(self.n) and self.a.shape == (3, 3):
            self.stage = 1
            return self
        raise Unsupported("reshape of np.repeat(.., n)")

    def transpose(self):
        if self.stage != 1:
            raise Unsupported("transpose of np.repeat(.., n) before reshape")
        # repeat(M, n)[i*3n + j*n + k] = M[i,j]; reshape(3,3,n)[i,j,k] = M[i,j]; transpose()[k,j,i] = M[i,j]
        MT = S.SymArray(self.a.T.copy())
        return LArr(self.n, (3, 3), lambda i, MT=MT: MT.copy())


# ----------------------------------------------------------------------------- Sigma terms
class Sigma:
    """Registry of sum symbols and derivations by the finite-sum laws (A-SIGMA)."""

    cur: "Sigma" = None

    def __init__(self, n):
        self.n = n
        self.sums = {}  # name -> summand term in G (z3)
        self.facts = []  # derived z3 facts about sum symbols
        self.log = []  # which law derived what
        self.obligations = []  # (name, formula) side conditions for the solver: forall g. ...

    def register(self, larr):
        t = zz(larr.at(G))
        ts = z3.simplify(t)
        if z3.is_rational_value(ts) and ts.numerator_as_long() == 0:
            return 0  # law CONST: a sum of zeros is zero
        for name, t0 in self.sums.items():
            if z3.eq(z3.simplify(t0), z3.simplify(t)):
                return Sym(z3.Real(name))
        name = f"SUM{len(self.sums)}"
        self.sums[name] = t
        return Sym(z3.Real(name))

    def name_of(self, larr):
        """Name of the sum symbol whose summand is syntactically that of `larr` (None if not registered)."""
        t = z3.simplify(zz(larr.at(G)))
        for name, t0 in self.sums.items():
            if z3.eq(z3.simplify(t0), t):
                return name
        return None

    def declare(self, name, summand_fn):
        """Declare a named sum of known summand (e.g. SUMf = sum f(g))."""
        self.sums[name] = zz(summand_fn(G))
        return z3.Real(name)

    def sym(self, name):
        return z3.Real(name)

    @staticmethod
    def free_of_g(t):
        return not _mentions(t, G)

    def linear(self, t_of_g, combo, hyps=()):
        """Law LIN (homogeneity + additivity + congruence):
        if for generic g:  t(g) == sum_k c_k * u_k(g)  with every c_k free of g, then
        SUM t == sum_k c_k * SUM u_k.   Returns (side_condition_formula, conclusion_formula_builder)."""
        for c, _ in combo:
            if not self.free_of_g(c):
                raise ValueError("coefficient mentions the summation index")
        rhs = sum((c * self.sums[nm] for c, nm in combo), z3.RealVal(0))
        side = t_of_g == rhs
        concl_rhs = sum((c * z3.Real(nm) for c, nm in combo), z3.RealVal(0))
        return side, concl_rhs


def _mentions(t, v, seen=None):
    if seen is None:
        seen = set()
    if t.get_id() in seen:
        return False
    seen.add(t.get_id())
    if z3.eq(t, v):
        return True
    return any(_mentions(c, v, seen) for c in t.children())
