"""Entry point: python -m pv.main <Cxx> [--tier quick|thorough] | replay <file>"""
import argparse
import importlib
import json
import os
import sys
import traceback


def main():
    ap = argparse.ArgumentParser()
    ap.add_argument("what")
    ap.add_argument("arg", nargs="?")
    ap.add_argument("--tier", default=os.environ.get("VERIF_TIER", "quick"))
    a = ap.parse_args()
    seed = int(os.environ.get("VERIF_SEED", "0") or 0)
    import logging

    logging.disable(logging.CRITICAL)  # PyDRex logs to the console; the checks' stdout carries only their own lines
    from pv import native
    from pv.report import Run

    if a.what == "replay":
        info = json.load(open(a.arg))
        if "checker" not in info:
            print("replay file carries no executable checker (structural obligation):")
            print(json.dumps({k: info[k] for k in info if k in ("obligation", "formula", "solver_output", "detail")}, indent=1))
            return 1
        mod, fn = info["checker"].split(":")
        res = native.call(mod, fn, info["inputs"])
        native.close_all()
        print(json.dumps(res, indent=1, default=str))
        return 1 if not res.get("ok", False) else 0
    pid = a.what
    tier = a.tier if a.tier in ("quick", "thorough") else "quick"
    os.environ["PV_TIER"] = tier
    run = Run(pid, tier, seed)
    try:
        mod = importlib.import_module(f"contracts.{pid}")
        mod.run(run)
        rc = run.finish()
    except Exception:
        traceback.print_exc()
        print(f"CHECKER-FAILURE: {pid}: exception in the checker itself", file=sys.stderr)
        try:
            run.checker_failures.append("exception in checker")
            run.violations.clear()
            run.finish()
        except Exception:
            pass
        rc = 3
    finally:
        native.close_all()
    return rc


if __name__ == "__main__":
    sys.exit(main())
