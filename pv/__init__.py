"""pv — verification-condition generator for PyDRex.

Runs the *real code objects* of /repo on symbolic proxy values (z3 reals inside NumPy
object arrays), enumerates every feasible path, collects obligations and discharges them
with z3 / cvc5.  See /verif/DESIGN.md section 2.
"""
