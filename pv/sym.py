"""Symbolic proxy values, path exploration context and NumPy integration.

Sym      real-valued term (z3 Real)             -- arithmetic, abs, pow, transcendental atoms
SymBool  formula                                 -- __bool__ is the only place a path forks
SymArray ndarray subclass (dtype=object)         -- NumPy does shape/index/broadcast; element
                                                   functions get fork-free If-term semantics
Ctx      exploration context: path condition, decisions, obligations
"""
from __future__ import annotations

import itertools
import math
import time
from fractions import Fraction

import numpy as _np
import z3

RS, IS, BS = z3.RealSort(), z3.IntSort(), z3.BoolSort()

# ----------------------------------------------------------------------------- uninterpreted atoms
POW = z3.Function("POW", RS, RS, RS)
EXP = z3.Function("EXP", RS, RS)
SIN = z3.Function("SIN", RS, RS)
COS = z3.Function("COS", RS, RS)
TAN = z3.Function("TAN", RS, RS)
ACOS = z3.Function("ACOS", RS, RS)
ATAN = z3.Function("ATAN", RS, RS)
ATAN2 = z3.Function("ATAN2", RS, RS, RS)
LOG = z3.Function("LOG", RS, RS)
PI = z3.Real("PI")
SQRT2 = z3.Real("SQRT2")  # defined constant: SQRT2 > 0 and SQRT2^2 == 2
CONST_AXIOMS = [SQRT2 > 0, SQRT2 * SQRT2 == 2, PI > 3, PI < 4]


class Infeasible(Exception):
    """Raised inside an exploration when the current path has no feasible continuation."""


class Unsupported(Exception):
    """A construct the engine does not model: the run is *undecided*, never a violation."""


class PathCap(Exception):
    pass


class Obl:
    """One proof obligation: under hyps + pc + facts prove `goal`."""

    __slots__ = ("name", "kind", "pc", "goal", "meta")

    def __init__(self, name, kind, pc, goal, meta=None):
        self.name, self.kind, self.pc, self.goal, self.meta = name, kind, pc, goal, meta or {}


class Ctx:
    cur: "Ctx" = None

    def __init__(self, hyps=(), feas_timeout_ms=1500, max_paths=5000):
        self.hyps = list(hyps) + list(CONST_AXIOMS)
        self.prefix, self.taken, self.pc = [], [], []
        self.work = []
        self.oblig = []
        self.lazy = []  # lazily kept definitional equalities of stubs (this path)
        self.fresh_counter = itertools.count()
        self.max_paths = max_paths
        self.solver = z3.Solver()
        self.solver.set("timeout", feas_timeout_ms)
        for h in self.hyps:
            self.solver.add(h)
        self.nchecks = 0
        self.unknown_feas = 0
        self.sqrt_defs = {}
        # True while engine.explore drives this context (every fork's other branch will be executed).  A facet that runs the
        # code once on a bare context must not silently follow one branch of a symbolic condition: a fork there is Unsupported.
        self.exploring = False

    # -- path management
    def reset_path(self, prefix):
        self.prefix, self.taken, self.pc, self.oblig, self.lazy = prefix, [], [], [], []
        self.fresh_counter = itertools.count()
        self.sqrt_defs = {}

    def fresh(self, base):
        return f"{base}!{next(self.fresh_counter)}"

    def feasible(self, extra):
        self.nchecks += 1
        self.solver.push()
        try:
            for c in self.pc:
                self.solver.add(c)
            self.solver.add(extra)
            r = self.solver.check()
        finally:
            self.solver.pop()
        if r == z3.unknown:
            self.unknown_feas += 1
        return r != z3.unsat  # unknown counts as feasible (sound: explores more)

    def decide(self, b):
        """Fork on formula b; returns the branch taken on this run."""
        b = z3.simplify(b)
        if z3.is_true(b):
            return True
        if z3.is_false(b):
            return False
        i = len(self.taken)
        if i < len(self.prefix):
            d = self.prefix[i]
        else:
            ft, ff = self.feasible(b), self.feasible(z3.Not(b))
            if ft and ff:
                if not self.exploring:
                    raise Unsupported("branch on a symbolic condition outside a path exploration (single-path facet)")
                self.work.append(self.taken + [False])
                d = True
            elif ft:
                d = True
            elif ff:
                d = False
            else:
                raise Infeasible()
        self.taken.append(d)
        self.pc.append(b if d else z3.Not(b))
        return d

    def choose(self, cond=None):
        """Nondeterministic choice (no constraint on the False branch).

        True branch adds `cond` to the path condition (if given and feasible)."""
        i = len(self.taken)
        if i < len(self.prefix):
            d = self.prefix[i]
        else:
            if cond is not None and not self.feasible(cond):
                d = False
            else:
                if not self.exploring:
                    raise Unsupported("nondeterministic choice outside a path exploration (single-path facet)")
                self.work.append(self.taken + [False])
                d = True
        self.taken.append(d)
        if d and cond is not None:
            self.pc.append(cond)
        return d

    def assume(self, f, lazy=False):
        """Add a fact (callee postcondition, established guard) to this path."""
        if lazy:
            self.lazy.append(f)
        else:
            self.pc.append(f)

    def obligation(self, name, goal, kind="safety", **meta):
        self.oblig.append(Obl(name, kind, list(self.pc), goal, meta))


def ctx() -> Ctx:
    return Ctx.cur


# ----------------------------------------------------------------------------- scalars
def is_sym(x):
    return isinstance(x, Sym)


def R(x):
    """z3 real term of a Python/NumPy number or Sym."""
    if isinstance(x, Sym):
        return x.z
    if isinstance(x, SymInt):
        return z3.ToReal(x.z)
    if isinstance(x, (bool, _np.bool_)):
        return z3.RealVal(1 if x else 0)
    if isinstance(x, (int, _np.integer)):
        return z3.RealVal(int(x))
    if isinstance(x, (float, _np.floating)):
        if math.isinf(x) or math.isnan(x):
            raise NonFinite(f"non-finite constant {x} in real arithmetic")
        fr = Fraction(float(x))
        return z3.RealVal(f"{fr.numerator}/{fr.denominator}")
    if isinstance(x, Fraction):
        return z3.RealVal(f"{x.numerator}/{x.denominator}")
    if z3.is_expr(x):
        return x
    raise Unsupported(f"cannot lift {type(x).__name__} to a real term")


class NonFinite(ArithmeticError):
    """inf/nan entered real arithmetic on this path (what IEEE would propagate)."""


def _isnum(x):
    return isinstance(x, (int, float, Fraction, _np.integer, _np.floating)) and not isinstance(
        x, (bool, _np.bool_)
    )


def _is0(x):
    return _isnum(x) and x == 0


def _is1(x):
    return _isnum(x) and x == 1


class Sym:
    """A real-valued symbolic term."""

    __slots__ = ("z",)
    __hash__ = None
    __array_priority__ = 1000

    def __init__(self, z):
        self.z = z

    def __repr__(self):
        s = str(self.z)
        return f"Sym({s if len(s) < 200 else s[:200] + '...'})"

    # numpy calls this for np.<ufunc>(Sym, ...) and np.float64 <op> Sym
    def __array_ufunc__(self, ufunc, method, *inputs, **kw):
        return _dispatch_ufunc(ufunc, method, inputs, kw)

    def _lift_other(self, o):
        if isinstance(o, _np.ndarray):
            return None
        return o

    def __add__(s, o):
        if isinstance(o, (_np.ndarray, LiftedBase)):
            return NotImplemented
        if _is0(o):
            return s
        return Sym(s.z + R(o))

    __radd__ = __add__

    def __sub__(s, o):
        if isinstance(o, (_np.ndarray, LiftedBase)):
            return NotImplemented
        if _is0(o):
            return s
        return Sym(s.z - R(o))

    def __rsub__(s, o):
        if isinstance(o, (_np.ndarray, LiftedBase)):
            return NotImplemented
        if _is0(o):
            return Sym(-s.z)
        return Sym(R(o) - s.z)

    def __mul__(s, o):
        if isinstance(o, (_np.ndarray, LiftedBase)):
            return NotImplemented
        if _is0(o):
            return 0
        if _is1(o):
            return s
        if isinstance(o, (float, _np.floating)) and math.isinf(o):
            raise NonFinite("inf * x")
        return Sym(s.z * R(o))

    __rmul__ = __mul__

    def __neg__(s):
        return Sym(-s.z)

    def __pos__(s):
        return s

    def __truediv__(s, o):
        if isinstance(o, (_np.ndarray, LiftedBase)):
            return NotImplemented
        if isinstance(o, (float, _np.floating)) and math.isinf(o):
            return 0  # finite / inf == 0 exactly (extended reals, also IEEE)
        if _is1(o):
            return s
        if _isnum(o):
            if o == 0:
                ctx().obligation("div_nonzero", z3.BoolVal(False), what="division by literal 0")
                raise Infeasible()
            return Sym(s.z / R(o))
        d = R(o)
        _div_guard(d)
        return Sym(s.z / d)

    def __rtruediv__(s, o):
        if isinstance(o, (_np.ndarray, LiftedBase)):
            return NotImplemented
        if isinstance(o, (float, _np.floating)) and math.isinf(o):
            raise NonFinite("inf / x")
        _div_guard(s.z)
        if _is0(o):
            return 0
        return Sym(R(o) / s.z)

    def __abs__(s):
        return Sym(z3.If(s.z >= 0, s.z, -s.z))

    def __pow__(s, o):
        if isinstance(o, (_np.ndarray, LiftedBase)):
            return NotImplemented
        if isinstance(o, (int, _np.integer)) and not isinstance(o, bool) and 0 <= int(o) <= 12:
            if int(o) == 0:
                return 1
            r = s.z
            for _ in range(int(o) - 1):
                r = r * s.z
            return Sym(r)
        if isinstance(o, (float, _np.floating)) and float(o) == 0.5:
            return s.sqrt()
        return Sym(POW(s.z, R(o)))

    def __rpow__(s, o):
        return Sym(POW(R(o), s.z))

    # methods numpy's object loops / our ufunc table use
    def exp(s):
        return Sym(EXP(s.z))

    def sqrt(s):
        return sym_sqrt(s)

    def sin(s):
        return Sym(SIN(s.z))

    def cos(s):
        return Sym(COS(s.z))

    def tan(s):
        return Sym(TAN(s.z))

    def arccos(s):
        if not QUIET[0]:
            ctx().obligation("acos_domain", z3.And(s.z >= -1, s.z <= 1), what="arccos argument in [-1,1]")
        return Sym(ACOS(s.z))

    def arctan(s):
        return Sym(ATAN(s.z))

    def log(s):
        if not QUIET[0]:
            ctx().obligation("log_domain", s.z > 0)
        return Sym(LOG(s.z))

    def conjugate(s):
        return s

    def _cmp(s, o, f):
        if isinstance(o, (_np.ndarray, LiftedBase)):
            return NotImplemented
        if isinstance(o, (float, _np.floating)) and math.isinf(o):
            return SymBool(z3.BoolVal(f(0, 1) if o > 0 else f(1, 0)))
        return SymBool(f(s.z, R(o)))

    def __lt__(s, o):
        return s._cmp(o, lambda a, b: a < b)

    def __le__(s, o):
        return s._cmp(o, lambda a, b: a <= b)

    def __gt__(s, o):
        return s._cmp(o, lambda a, b: a > b)

    def __ge__(s, o):
        return s._cmp(o, lambda a, b: a >= b)

    def __eq__(s, o):
        return s._cmp(o, lambda a, b: a == b)

    def __ne__(s, o):
        return s._cmp(o, lambda a, b: a != b)

    def __bool__(s):
        # NumPy truthiness of a number: x != 0  (np.where / np.triu / np.all rely on it)
        return ctx().decide(s.z != 0)

    def __float__(s):
        raise Unsupported("float() of a symbolic value")

    def __int__(s):
        raise Unsupported("int() of a symbolic value")

    def __index__(s):
        raise Unsupported("index from a symbolic value")


QUIET = [0]


class quiet:
    """Evaluate without recording obligations/facts (re-evaluation of a lifted array's element closure:
    the obligations were recorded, at the generic index, when the operation was applied)."""

    def __enter__(self):
        QUIET[0] += 1

    def __exit__(self, *a):
        QUIET[0] -= 1


def _div_guard(d):
    """Record the safety obligation d != 0, then continue on the path where it holds."""
    if QUIET[0]:
        return
    c = ctx()
    c.obligation("div_nonzero", d != 0, what="denominator non-zero")
    c.assume(d != 0)


def sym_sqrt(s):
    """sqrt as a *defined* witness: w >= 0 and w*w == a (complete over the reals)."""
    c = ctx()
    a = R(s)
    if z3.is_rational_value(a):
        fr = Fraction(a.numerator_as_long(), a.denominator_as_long())
        if fr < 0:
            raise NonFinite(f"sqrt of the negative constant {float(fr)}")
        if fr == 2:
            return Sym(SQRT2)
        rt = Fraction(math.isqrt(fr.numerator), math.isqrt(fr.denominator))
        if rt * rt == fr:
            return rt if rt.denominator != 1 else int(rt)
    key = a.get_id()
    if key in c.sqrt_defs:
        return Sym(c.sqrt_defs[key])
    if QUIET[0]:
        raise Unsupported("sqrt inside a lifted element closure")
    c.obligation("sqrt_domain", a >= 0, what="sqrt argument non-negative")
    w = z3.Real(c.fresh("sqrt"))
    c.assume(z3.And(w >= 0, w * w == a))
    c.sqrt_defs[key] = w
    return Sym(w)


class SymBool:
    __slots__ = ("z",)
    __hash__ = None

    def __init__(self, z):
        self.z = z

    def __repr__(self):
        return f"SymBool({self.z})"

    def __bool__(self):
        return ctx().decide(self.z)

    def __and__(s, o):
        return SymBool(z3.And(s.z, B(o)))

    __rand__ = __and__

    def __or__(s, o):
        return SymBool(z3.Or(s.z, B(o)))

    __ror__ = __or__

    def __invert__(s):
        return SymBool(z3.Not(s.z))

    def __eq__(s, o):
        return SymBool(s.z == B(o))

    def __ne__(s, o):
        return SymBool(s.z != B(o))


def B(x):
    if isinstance(x, SymBool):
        return x.z
    if isinstance(x, (bool, _np.bool_)):
        return z3.BoolVal(bool(x))
    if isinstance(x, Sym):
        return x.z != 0
    if z3.is_expr(x):
        return x
    if _isnum(x):
        return z3.BoolVal(x != 0)
    raise Unsupported(f"cannot lift {type(x).__name__} to a formula")


class SymInt:
    """Symbolic integer (grain count, generic grain index)."""

    __slots__ = ("z",)
    __hash__ = None

    def __init__(self, z):
        self.z = z

    def __repr__(self):
        return f"SymInt({self.z})"

    @staticmethod
    def _z(o):
        if isinstance(o, SymInt):
            return o.z
        if isinstance(o, (int, _np.integer)) and not isinstance(o, bool):
            return z3.IntVal(int(o))
        return None

    def _bin(s, o, f, swap=False):
        z = SymInt._z(o)
        if z is None:
            # mixed with reals: behave like the real number
            if isinstance(o, (Sym, float, _np.floating, Fraction)):
                a = Sym(z3.ToReal(s.z))
                return f(o, a) if swap else f(a, o)
            return NotImplemented
        return SymInt(z3.simplify(f(z, s.z) if swap else f(s.z, z)))

    def __add__(s, o):
        return s._bin(o, lambda a, b: a + b)

    def __radd__(s, o):
        return s._bin(o, lambda a, b: a + b, True)

    def __sub__(s, o):
        return s._bin(o, lambda a, b: a - b)

    def __rsub__(s, o):
        return s._bin(o, lambda a, b: a - b, True)

    def __mul__(s, o):
        return s._bin(o, lambda a, b: a * b)

    def __rmul__(s, o):
        return s._bin(o, lambda a, b: a * b, True)

    def __truediv__(s, o):
        return Sym(z3.ToReal(s.z)) / o

    def __rtruediv__(s, o):
        return o / Sym(z3.ToReal(s.z))

    def _cmp(s, o, f):
        z = SymInt._z(o)
        if z is None:
            return f(Sym(z3.ToReal(s.z)), o)
        return SymBool(f(s.z, z))

    def __lt__(s, o):
        return s._cmp(o, lambda a, b: a < b)

    def __le__(s, o):
        return s._cmp(o, lambda a, b: a <= b)

    def __gt__(s, o):
        return s._cmp(o, lambda a, b: a > b)

    def __ge__(s, o):
        return s._cmp(o, lambda a, b: a >= b)

    def __eq__(s, o):
        return s._cmp(o, lambda a, b: a == b)

    def __ne__(s, o):
        return s._cmp(o, lambda a, b: a != b)

    def same(s, o):
        """Syntactic/solver equality of two index expressions (used for slicing)."""
        z = SymInt._z(o)
        if z is None:
            return False
        d = z3.simplify(s.z - z)
        return z3.is_int_value(d) and d.as_long() == 0


class LiftedBase:
    """Marker base for lifted (symbolic-length) arrays, see pv.larr."""


# ----------------------------------------------------------------------------- arrays
def zz(v):
    return v.z if isinstance(v, Sym) else R(v)


def ew(f, *arrs):
    """Element-wise application with NumPy broadcasting; result is a SymArray."""
    prepared = []
    for a in arrs:
        if isinstance(a, _np.ndarray):
            prepared.append(a.view(_np.ndarray))
        else:
            o = _np.empty((), dtype=object)
            o[()] = a
            prepared.append(o)
    bs = _np.broadcast_arrays(*prepared)
    out = _np.empty(bs[0].shape, dtype=object)
    for ix in _np.ndindex(*out.shape):
        out[ix] = f(*[_py(b[ix]) for b in bs])
    if out.shape == ():
        return out[()]
    return out.view(SymArray)


def _py(x):
    # NumPy scalars would re-enter the ufunc machinery (np.float64.__mul__(Sym) -> __array_ufunc__ -> ...)
    return x.item() if isinstance(x, _np.generic) else x


def s_clip(v, lo, hi):
    if not isinstance(v, Sym):
        if lo is not None and v < lo:
            v = lo
        if hi is not None and v > hi:
            v = hi
        return v
    z = v.z
    if lo is not None:
        z = z3.If(z < R(lo), R(lo), z)
    if hi is not None:
        z = z3.If(z > R(hi), R(hi), z)
    return Sym(z)


def s_abs(v):
    return abs(v)


def s_max2(a, b):
    if not isinstance(a, Sym) and not isinstance(b, Sym):
        return max(a, b)
    return Sym(z3.If(zz(a) >= zz(b), zz(a), zz(b)))


def s_min2(a, b):
    if not isinstance(a, Sym) and not isinstance(b, Sym):
        return min(a, b)
    return Sym(z3.If(zz(a) <= zz(b), zz(a), zz(b)))


def s_sign(a):
    if not isinstance(a, Sym):
        return (a > 0) - (a < 0)
    return Sym(z3.If(a.z > 0, z3.RealVal(1), z3.If(a.z < 0, z3.RealVal(-1), z3.RealVal(0))))


def s_where(c, x, y):
    if isinstance(c, (bool, _np.bool_)):
        return x if c else y
    if _isnum(c):
        return x if c != 0 else y
    cz = B(c)
    if isinstance(x, SymBool) or isinstance(y, SymBool):
        return SymBool(z3.If(cz, B(x), B(y)))
    return Sym(z3.If(cz, zz(x), zz(y)))


def _cmp_el(op):
    def f(a, b):
        r = op(a, b)
        return r
    return f


def _call(name):
    def f(a):
        if isinstance(a, Sym):
            return getattr(a, name)()
        return getattr(math, {"arccos": "acos", "arctan": "atan"}.get(name, name))(a)
    return f


def s_sqrt(a):
    if isinstance(a, Sym):
        return sym_sqrt(a)
    if _isnum(a):
        return sym_sqrt(Sym(R(a)))
    raise Unsupported("sqrt")


def s_arctan2(y, x):
    return Sym(ATAN2(zz(y), zz(x)))


def s_power(a, b):
    return a ** b if isinstance(a, Sym) else (Sym(R(a)) ** b if isinstance(b, Sym) else a ** b)


def s_not(a):
    if isinstance(a, SymBool):
        return ~a
    return not a


def s_and(a, b):
    return SymBool(z3.And(B(a), B(b)))


def s_or(a, b):
    return SymBool(z3.Or(B(a), B(b)))


import operator as _op

UF = {
    _np.add: _op.add,
    _np.subtract: _op.sub,
    _np.multiply: _op.mul,
    _np.true_divide: _op.truediv,
    _np.negative: _op.neg,
    _np.positive: _op.pos,
    _np.absolute: s_abs,
    _np.power: s_power,
    _np.square: lambda a: a * a,
    _np.less: _op.lt,
    _np.less_equal: _op.le,
    _np.greater: _op.gt,
    _np.greater_equal: _op.ge,
    _np.equal: _op.eq,
    _np.not_equal: _op.ne,
    _np.maximum: s_max2,
    _np.minimum: s_min2,
    _np.sign: s_sign,
    _np.sqrt: s_sqrt,
    _np.exp: _call("exp"),
    _np.sin: _call("sin"),
    _np.cos: _call("cos"),
    _np.tan: _call("tan"),
    _np.arccos: _call("arccos"),
    _np.arctan: _call("arctan"),
    _np.log: _call("log"),
    _np.arctan2: s_arctan2,
    _np.logical_not: s_not,
    _np.invert: s_not,
    _np.logical_and: s_and,
    _np.bitwise_and: s_and,
    _np.logical_or: s_or,
    _np.bitwise_or: s_or,
    _np.conjugate: lambda a: a,
    _np.rad2deg: lambda a: a * 180 / Sym(PI),
    _np.deg2rad: lambda a: a * Sym(PI) / 180,
    _np.isnan: lambda a: False,
    _np.isfinite: lambda a: True,
    _np.isinf: lambda a: False,
}


def _has_sym(a):
    if isinstance(a, (Sym, SymBool)):
        return True
    if isinstance(a, _np.ndarray) and a.dtype == object:
        return True
    return False


def _dispatch_ufunc(ufunc, method, inputs, kw):
    out = kw.get("out")
    if method == "__call__" and ufunc in UF:
        res = ew(UF[ufunc], *inputs)
        if out is not None:
            tgt = out[0]
            tgt.view(_np.ndarray)[...] = res
            return tgt
        return res
    if method == "reduce" and ufunc is _np.add:
        a = inputs[0]
        axis = kw.get("axis", 0)
        return _sum(a, axis=axis)
    if method == "reduce" and ufunc in (_np.logical_and, _np.logical_or, _np.maximum, _np.minimum, _np.multiply):
        a = _np.asarray(inputs[0], dtype=object)
        axis = kw.get("axis", 0)
        return _reduce(UF[ufunc], a, axis)
    if method == "accumulate" and ufunc is _np.add:
        a = _np.asarray(inputs[0], dtype=object).view(_np.ndarray)
        if a.ndim != 1:
            raise Unsupported("cumsum of a non-vector")
        out_ = _np.empty(a.shape, dtype=object)
        acc = 0
        for i_, v in enumerate(a):
            acc = acc + v
            out_[i_] = acc
        return out_.view(SymArray)
    if method == "at" or method == "accumulate" or method == "outer":
        raise Unsupported(f"ufunc method {method} of {ufunc.__name__}")
    raise Unsupported(f"ufunc {ufunc.__name__}.{method} on symbolic values")


def _reduce(f, a, axis):
    a = a.view(_np.ndarray)
    if axis is None:
        it = list(a.flat)
        r = it[0]
        for v in it[1:]:
            r = f(r, v)
        return r
    a = _np.moveaxis(a, axis, 0)
    r = a[0].copy() if isinstance(a[0], _np.ndarray) else a[0]
    for k in range(1, a.shape[0]):
        r = ew(f, r, a[k])
    return r if not isinstance(r, _np.ndarray) else r.view(SymArray)


def _sum(a, axis=None):
    a = _np.asarray(a, dtype=object)
    if a.size == 0:
        return 0
    return _reduce(_op.add, a, axis)


HANDLED = {}


def implements(*fs):
    def deco(g):
        for f in fs:
            HANDLED[f] = g
        return g
    return deco


class SymArray(_np.ndarray):
    """Object-dtype ndarray whose element functions are fork-free."""

    def __new__(cls, a):
        return _np.asarray(a, dtype=object).view(cls)

    def __array_function__(self, func, types, args, kwargs):
        if func in HANDLED:
            return HANDLED[func](*args, **kwargs)
        out = super().__array_function__(func, types, args, kwargs)
        return _rewrap(out)

    def __array_ufunc__(self, ufunc, method, *inputs, **kw):
        return _dispatch_ufunc(ufunc, method, inputs, kw)

    # element-function methods whose object-dtype behaviour is not the float behaviour
    def astype(self, t, *a, **k):
        if t in (float, int, _np.float64, _np.int64) and self.size and any(isinstance(v, SymBool) for v in self.flat):
            # booleans to numbers: True -> 1, False -> 0
            return ew(lambda v: s_where(v, 1, 0) if isinstance(v, (SymBool, bool, _np.bool_)) else v, self)
        return self.copy()

    def clip(self, min=None, max=None, out=None, **k):
        return ew(lambda v: s_clip(v, min, max), self)

    def max(self, axis=None, **k):
        return _reduce(s_max2, self, axis)

    def min(self, axis=None, **k):
        return _reduce(s_min2, self, axis)

    def sum(self, axis=None, **k):
        return _sum(self, axis)

    def mean(self, axis=None, **k):
        n = self.size if axis is None else self.shape[axis]
        return _sum(self, axis) / n

    def all(self, axis=None, **k):
        return _reduce(s_and, ew(lambda v: SymBool(B(v)), self), axis) if self.size else True

    def any(self, axis=None, **k):
        return _reduce(s_or, ew(lambda v: SymBool(B(v)), self), axis) if self.size else False

    def dot(self, o):
        return _matmul(self, o)

    def __matmul__(self, o):
        return _matmul(self, o)

    def __rmatmul__(self, o):
        return _matmul(o, self)

    def trace(self, *a, **k):
        return _sum(_np.diagonal(self.view(_np.ndarray)))

    def cumsum(self, *a, **k):
        return _dispatch_ufunc(_np.add, "accumulate", (self,), {})

    def squeeze(self, *a, **k):
        return self.view(_np.ndarray).squeeze(*a, **k).view(SymArray)

    def __bool__(self):
        if self.size != 1:
            raise ValueError("The truth value of an array with more than one element is ambiguous.")
        return bool(self.flat[0])

    # boolean-mask indexing with symbolic masks
    def __setitem__(self, key, val):
        m = _mask_of(key)
        if m is None:
            return super().__setitem__(key, val)
        base = self.view(_np.ndarray)
        if isinstance(val, Masked):
            if val.mask is not m and not _same_mask(val.mask, m):
                raise Unsupported("masked assignment between different masks")
            src = val.arr.view(_np.ndarray)
        else:
            src = _np.broadcast_to(_np.asarray(val, dtype=object), base.shape)
        for ix in _np.ndindex(*base.shape):
            mk = m[ix[: m.ndim]]
            base[ix] = s_where(mk, src[ix], base[ix])

    def __getitem__(self, key):
        m = _mask_of(key)
        if m is None:
            return super().__getitem__(key)
        return Masked(self, m)


class Masked:
    """Result of a[mask] with a symbolic boolean mask: the selection {a_i : mask_i}, whose length is not known.  Usable as an
    assignment source, under element-wise +, -, * and integer powers with scalars (applied to every candidate element; these
    operations have no domain conditions), and under sum(), which adds the selected elements: sum_i (mask_i ? a_i : 0)."""

    def __init__(self, arr, mask):
        self.arr, self.mask = arr, mask

    def _map(self, f):
        src = _np.asarray(self.arr, dtype=object).view(_np.ndarray)
        out = _np.empty(src.shape, dtype=object)
        for ix in _np.ndindex(*src.shape):
            out[ix] = f(src[ix])
        return Masked(out.view(SymArray), self.mask)

    @staticmethod
    def _scalar(o):
        if isinstance(o, (Sym, int, float, Fraction, _np.floating, _np.integer)) and not isinstance(o, bool):
            return o
        if isinstance(o, _np.ndarray) and o.ndim == 0:
            return o.item()
        raise Unsupported("arithmetic between a boolean-mask selection and a non-scalar")

    def __add__(self, o):
        o = Masked._scalar(o)
        return self._map(lambda v: v + o)

    __radd__ = __add__

    def __sub__(self, o):
        o = Masked._scalar(o)
        return self._map(lambda v: v - o)

    def __rsub__(self, o):
        o = Masked._scalar(o)
        return self._map(lambda v: o - v)

    def __mul__(self, o):
        o = Masked._scalar(o)
        return self._map(lambda v: v * o)

    __rmul__ = __mul__
    __imul__ = __mul__

    def __pow__(self, k):
        if not (isinstance(k, int) and 0 <= k <= 4):
            raise Unsupported("power of a boolean-mask selection")
        return self._map(lambda v: v ** k)

    def sum(self, *a, **k):
        if a or k:
            raise Unsupported("sum variant on a boolean-mask selection")
        if self.mask.shape != _np.shape(self.arr):
            raise Unsupported("row selection")
        tot = 0
        src = _np.asarray(self.arr, dtype=object).view(_np.ndarray)
        for ix in _np.ndindex(*src.shape):
            tot = tot + s_where(self.mask[ix], src[ix], 0)
        return tot


def _mask_of(key):
    k0 = key[0] if isinstance(key, tuple) and key else key
    if isinstance(k0, _np.ndarray) and k0.dtype == object and k0.size and isinstance(k0.flat[0], (SymBool,)):
        if isinstance(key, tuple):
            for r in key[1:]:
                if not (isinstance(r, slice) and r == slice(None)) and r is not Ellipsis:
                    raise Unsupported("mixed symbolic mask indexing")
        return k0.view(_np.ndarray)
    return None


def _same_mask(a, b):
    return a.shape == b.shape and all(z3.eq(B(x), B(y)) for x, y in zip(a.flat, b.flat))


def _rewrap(out):
    if isinstance(out, _np.ndarray) and out.dtype == object and not isinstance(out, SymArray):
        return out.view(SymArray)
    if isinstance(out, tuple):
        return tuple(_rewrap(o) for o in out)
    if isinstance(out, list):
        return [_rewrap(o) for o in out]
    return out


def _matmul(a, b):
    a = _np.asarray(a, dtype=object).view(_np.ndarray)
    b = _np.asarray(b, dtype=object).view(_np.ndarray)
    if a.ndim == 1 and b.ndim == 1:
        return _sum(ew(_op.mul, a, b))
    if a.ndim == 2 and b.ndim == 2:
        out = _np.empty((a.shape[0], b.shape[1]), dtype=object)
        for i in range(a.shape[0]):
            for j in range(b.shape[1]):
                acc = 0
                for k in range(a.shape[1]):
                    acc = acc + a[i, k] * b[k, j]
                out[i, j] = acc
        return out.view(SymArray)
    if a.ndim == 2 and b.ndim == 1:
        return _matmul(a, b.reshape(-1, 1)).reshape(-1)
    if a.ndim == 1 and b.ndim == 2:
        return _matmul(a.reshape(1, -1), b).reshape(-1)
    if a.ndim > 2 or b.ndim > 2:
        # stacked matmul with broadcasting over leading dims
        la_, lb_ = a.shape[:-2], b.shape[:-2]
        lead = _np.broadcast_shapes(la_, lb_)
        A = _np.broadcast_to(a, lead + a.shape[-2:])
        Bm = _np.broadcast_to(b, lead + b.shape[-2:])
        out = _np.empty(lead + (a.shape[-2], b.shape[-1]), dtype=object)
        for ix in _np.ndindex(*lead):
            out[ix] = _matmul(A[ix], Bm[ix])
        return out.view(SymArray)
    raise Unsupported("matmul shapes")


@implements(_np.dot, _np.matmul)
def _np_dot(a, b, out=None):
    return _matmul(a, b)


@implements(_np.clip)
def _np_clip(a, a_min=None, a_max=None, out=None, **k):
    lo = k.get("min", a_min)
    hi = k.get("max", a_max)
    return ew(lambda v: s_clip(v, lo, hi), a)


@implements(_np.where)
def _np_where(c, x=None, y=None):
    if x is None:
        raise Unsupported("np.where with one argument on symbolic data")
    return ew(s_where, c, x, y)


@implements(_np.triu)
def _np_triu(a, k=0):
    out = _np.asarray(a, dtype=object).view(_np.ndarray).copy()
    for i in range(out.shape[-2]):
        for j in range(out.shape[-1]):
            if j < i + k:
                out[..., i, j] = 0
    return out.view(SymArray)


@implements(_np.tril)
def _np_tril(a, k=0):
    out = _np.asarray(a, dtype=object).view(_np.ndarray).copy()
    for i in range(out.shape[-2]):
        for j in range(out.shape[-1]):
            if j > i + k:
                out[..., i, j] = 0
    return out.view(SymArray)


@implements(_np.sum)
def _np_sum(a, axis=None, **k):
    return _sum(a, axis)


@implements(_np.mean)
def _np_mean(a, axis=None, **k):
    return SymArray(a).mean(axis)


@implements(_np.trace)
def _np_trace(a, *args, **k):
    return SymArray(a).trace()


@implements(_np.all)
def _np_all(a, axis=None, **k):
    return SymArray(a).all(axis)


@implements(_np.any)
def _np_any(a, axis=None, **k):
    return SymArray(a).any(axis)


@implements(_np.max, _np.amax)
def _np_max(a, axis=None, **k):
    return SymArray(a).max(axis)


@implements(_np.min, _np.amin)
def _np_min(a, axis=None, **k):
    return SymArray(a).min(axis)


@implements(_np.abs)
def _np_abs(a):
    return ew(s_abs, a)


@implements(_np.cross)
def _np_cross(a, b):
    a = _np.asarray(a, dtype=object)
    b = _np.asarray(b, dtype=object)
    if a.shape != (3,) or b.shape != (3,):
        raise Unsupported("cross of non 3-vectors")
    return SymArray(
        [a[1] * b[2] - a[2] * b[1], a[2] * b[0] - a[0] * b[2], a[0] * b[1] - a[1] * b[0]]
    )


@implements(_np.isnan)
def _np_isnan(a):
    return _np.zeros(_np.shape(a), dtype=bool)


@implements(_np.argsort)
def _np_argsort(a, *args, **k):
    return sym_argsort(a)


@implements(_np.linalg.norm)
def _np_norm(a, *args, **k):
    if args or k:
        raise Unsupported("norm with ord/axis")
    return s_sqrt(_sum(ew(lambda v: v * v, a)))


@implements(_np.linalg.det)
def _np_det(m):
    m = _np.asarray(m, dtype=object)
    if m.shape != (3, 3):
        raise Unsupported("det of non 3x3")
    return (
        m[0, 0] * (m[1, 1] * m[2, 2] - m[1, 2] * m[2, 1])
        - m[0, 1] * (m[1, 0] * m[2, 2] - m[1, 2] * m[2, 0])
        + m[0, 2] * (m[1, 0] * m[2, 1] - m[1, 1] * m[2, 0])
    )


@implements(_np.repeat)
def _np_repeat(a, repeats, axis=None):
    if isinstance(a, (Sym, int, float)):
        o = _np.empty((repeats,), dtype=object)
        for i in range(repeats):
            o[i] = a
        return o.view(SymArray)
    return _rewrap(_np.repeat(_np.asarray(a, dtype=object).view(_np.ndarray), repeats, axis))


@implements(_np.hstack)
def _np_hstack(tup, **k):
    parts = []
    for t in tup:
        if isinstance(t, _np.ndarray):
            parts.append(_np.atleast_1d(t.view(_np.ndarray).astype(object)))
        else:
            o = _np.empty((1,), dtype=object)
            o[0] = t
            parts.append(o)
    return _np.concatenate(parts, axis=0 if parts[0].ndim == 1 else 1).view(SymArray)


def sym_argsort(a):
    """Contract of argsort: *some* permutation p with a[p0] <= a[p1] <= ...

    Every admissible permutation is explored as its own path (tie-breaking differs between
    NumPy and Numba, so none is preferred)."""
    vals = list(_np.asarray(a, dtype=object).flat)
    n = len(vals)
    if n > 5:
        raise Unsupported("symbolic argsort of more than 5 elements")
    c = ctx()
    perms = list(itertools.permutations(range(n)))
    for k, perm in enumerate(perms):
        cond = z3.simplify(z3.And(*[zz(vals[perm[i]]) <= zz(vals[perm[i + 1]]) for i in range(n - 1)])) if n > 1 else z3.BoolVal(True)
        if z3.is_false(cond):
            continue
        if c.choose(cond):
            return _np.array(perm)
    raise Infeasible()


# ----------------------------------------------------------------------------- allocation shim for `np`
def to_obj(a):
    a = _np.asarray(a)
    o = _np.empty(a.shape, dtype=object)
    for idx in _np.ndindex(*a.shape):
        v = a[idx]
        if isinstance(v, (Sym, SymBool)):
            o[idx] = v
        elif isinstance(v, (float, _np.floating)):
            fv = float(v)
            o[idx] = int(fv) if fv.is_integer() else fv
        elif isinstance(v, (int, _np.integer)) and not isinstance(v, (bool, _np.bool_)):
            o[idx] = int(v)
        else:
            o[idx] = v
    return o.view(SymArray)


class NPShim:
    """Stands in for the module global `np` of the function under verification.

    Only allocation functions (whose result cannot be an object array unless told so) and
    functions taking non-array symbolic scalars are rebound; the rest reaches NumPy and is
    handled by SymArray's protocol hooks."""

    def __init__(self, extra=None):
        self._extra = extra or {}

    def __getattr__(self, k):
        if k in self._extra:
            return self._extra[k]
        return getattr(_np, k)

    # allocation: exact object arrays
    def zeros(self, shape, *a, **k):
        return to_obj(_np.zeros(shape))

    def empty(self, shape, *a, **k):
        return to_obj(_np.zeros(shape))

    def ones(self, shape, *a, **k):
        return to_obj(_np.ones(shape))

    def eye(self, n, *a, **k):
        return to_obj(_np.eye(n))

    def full(self, shape, v, *a, **k):
        o = _np.empty(shape, dtype=object)
        for idx in _np.ndindex(*o.shape):
            o[idx] = v
        return o.view(SymArray)

    def zeros_like(self, a, *args, **k):
        return to_obj(_np.zeros(_np.shape(a)))

    def empty_like(self, a, *args, **k):
        return to_obj(_np.zeros(_np.shape(a)))

    def array(self, x, *a, **k):
        arr = _np.array(x, dtype=object)
        if any(isinstance(v, (Sym, SymBool)) for v in arr.flat):
            return arr.view(SymArray)
        try:
            return _np.array(x, *a, **k)
        except Exception:
            return arr.view(SymArray)

    def asarray(self, x, *a, **k):
        if isinstance(x, SymArray):
            return x
        return self.array(x)

    def atleast_1d(self, x):
        if isinstance(x, (Sym,)):
            o = _np.empty((1,), dtype=object)
            o[0] = x
            return o.view(SymArray)
        return _np.atleast_1d(x)

    def sqrt(self, x):
        if isinstance(x, (int, float)) and not isinstance(x, bool):
            r = s_sqrt(x)
            return r
        return _np.sqrt(x)

    def sum(self, a, *args, **k):
        if hasattr(a, "sum") and not isinstance(a, _np.ndarray):
            return a.sum()
        if isinstance(a, (list, tuple)) and any(isinstance(v, Sym) for v in a):
            r = 0
            for v in a:
                r = r + v
            return r
        return _np.sum(a, *args, **k)

    def abs(self, a):
        if isinstance(a, (Sym, LiftedBase)):
            return abs(a)
        return _np.abs(a)

    def all(self, a, *args, **k):
        if isinstance(a, SymBool):
            return a
        if isinstance(a, (list, tuple)):
            a = _np.array(a, dtype=object)
            if any(isinstance(v, (Sym, SymBool)) for v in a.flat):
                return SymArray(a).all()
            return _np.all(a.astype(bool))
        return _np.all(a, *args, **k)

    def argsort(self, a, *args, **k):
        return sym_argsort(a)

    def isnan(self, a):
        if isinstance(a, Sym):
            return False
        return _np.isnan(a)


# ----------------------------------------------------------------------------- symbolic inputs
def sym(name):
    return Sym(z3.Real(name))


def symarr(name, shape):
    a = _np.empty(shape, dtype=object)
    for idx in _np.ndindex(*shape):
        a[idx] = sym(name + "_" + "_".join(map(str, idx)))
    return a.view(SymArray)


def symmat_sym(name, n=3):
    """Symmetric n x n symbolic matrix."""
    a = _np.empty((n, n), dtype=object)
    for i in range(n):
        for j in range(i, n):
            a[i, j] = a[j, i] = sym(f"{name}_{i}_{j}")
    return a.view(SymArray)


def quat_rotation(name):
    """Euler-Rodrigues: Qn(q) and s=|q|^2 with Q = Qn/s a proper rotation for q != 0 (A-QUAT).

    Returns (Qn as SymArray of polynomial entries, s as Sym, [q != 0 hypothesis])."""
    a, b, c, d = (z3.Real(f"{name}_{k}") for k in "abcd")
    s = a * a + b * b + c * c + d * d
    Qn = [
        [a * a + b * b - c * c - d * d, 2 * (b * c - a * d), 2 * (b * d + a * c)],
        [2 * (b * c + a * d), a * a - b * b + c * c - d * d, 2 * (c * d - a * b)],
        [2 * (b * d - a * c), 2 * (c * d + a * b), a * a - b * b - c * c + d * d],
    ]
    arr = _np.empty((3, 3), dtype=object)
    for i in range(3):
        for j in range(3):
            arr[i, j] = Sym(Qn[i][j])
    return arr.view(SymArray), Sym(s), [s > 0], (a, b, c, d)


def unit_quat_rotation(name):
    """Rotation matrix from a unit quaternion: hypothesis |q|^2 == 1 (all of SO(3), A-QUAT)."""
    Qn, s, _, q = quat_rotation(name)
    return Qn, [s.z == 1], q
