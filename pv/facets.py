"""Reusable facet drivers: functional equivalence with native replay."""
from __future__ import annotations

import numpy as np
import z3

from . import engine as E
from . import native
from . import sym as S
from .natlib import enc
from .util import Z, alleq


def model_args(model, args):
    out = []
    for a in args:
        if isinstance(a, np.ndarray) and a.dtype != object:
            out.append(a)
        elif isinstance(a, np.ndarray):
            out.append(E.model_array(model, a))
        elif isinstance(a, S.Sym):
            out.append(E.model_value(model, a.z))
        else:
            out.append(a)
    return out


def flatten_vals(v):
    if isinstance(v, (list, tuple)):
        r = []
        for x in v:
            r += flatten_vals(x)
        return r
    if isinstance(v, np.ndarray):
        return [float(x) for x in v.flat]
    return [float(v)]


def replay_functional(modname, fname, args, spec, tol=1e-8, checker_mod="pv.natlib"):
    """Returns replay(model): run the real function natively on the model's inputs, compare with spec in floats."""

    def replay(model):
        fargs = model_args(model, args)
        res = native.call("pv.natlib", "call_fn", dict(module=modname, func=fname, args=[enc(a) for a in fargs]))
        exp = spec(*fargs)
        info = dict(checker="pv.natlib:call_fn", inputs=dict(module=modname, func=fname, args=[enc(a) for a in fargs]),
                    expected=flatten_vals(exp), observed=res)
        if not res.get("ok"):
            info["what"] = f"real {fname} raised {res.get('exc')}: {res.get('msg', '')[:120]}"
            if res.get("exc") in ("TypingError", "TypeError", "UnsupportedError", "LoweringError"):
                return False, info  # the harness called the compiled function with wrong types: not evidence about the code
            return True, info
        got = np.array(flatten_vals(_tonp(res["value"])), dtype=float)
        want = np.array(flatten_vals(exp), dtype=float)
        if got.shape != want.shape:
            info["what"] = "shape mismatch"
            return True, info
        bad = ~np.isclose(got, want, rtol=tol, atol=tol * max(1.0, float(np.abs(want).max()) if want.size else 1.0), equal_nan=False)
        info["what"] = f"real {modname}.{fname} differs from the contract value in {int(bad.sum())} entries (max abs diff {float(np.abs(got - want).max()):.3e})"
        return bool(bad.any()), info

    return replay


def _tonp(v):
    if isinstance(v, list):
        try:
            return np.array(v, dtype=float)
        except Exception:
            return [_tonp(x) for x in v]
    return v


def prove_entries(run, name, function, hyps, got, want, replay=None, group=True, kind="post"):
    """got == want entry-wise, denominators cleared.  One obligation (grouped) or one per entry."""
    zg, zw = Z(got), Z(want)
    if zg.shape != zw.shape:
        run.violation(name + "/shape", function, dict(what=f"shape {zg.shape} != {zw.shape}"), no_input=True)
        return "refuted"
    goals = [E.eq_cleared(a, b) for a, b in zip(zg.flat, zw.flat)]
    if group:
        return run.prove(name, function, hyps, z3.And(*goals) if len(goals) > 1 else goals[0], replay=replay, kind=kind,
                         detail=f"{name}: {len(goals)} entries, e.g. {E.brief(goals[0], 160)}")
    st = "proved"
    for ix, gl in zip(np.ndindex(*zg.shape), goals):
        s = run.prove(f"{name}{list(ix)}", function, hyps, gl, replay=replay, kind=kind)
        if s != "proved":
            st = s
    return st


def discharge_safety(run, prefix, function, hyps, path, replay=None):
    """Prove the safety obligations (division, sqrt/acos domain) recorded on one path."""
    ok = True
    for k, o in enumerate(path.oblig):
        st = run.prove(f"{prefix}/safety.{o.name}#{k}", function, list(hyps) + list(o.pc), o.goal, replay=replay, kind="safety",
                       detail=f"{o.meta.get('what', o.name)}: {E.brief(o.goal, 200)}")
        ok = ok and st == "proved"
    return ok


def functional(run, name, modname, fname, g, mkargs, spec, hyps=(), tol=1e-8, allow_exc=(), max_paths=200, group=True,
               path_hyps=True):
    """Facet  real f(args) == spec(args)  on every path, with safety obligations and native replay.

    g: rebound globals of the module; mkargs(): fresh symbolic arguments (deterministic names)."""
    function = f"{modname}.{fname}"
    f = g.get(fname)
    if f is None:
        run.undecided(name, function, f"function {fname} not found (renamed/inlined): facet skipped")
        return None
    holder = {}

    def body():
        args = mkargs()
        holder["args"] = args
        return f(*args)

    ex = E.explore(body, hyps=hyps, max_paths=max_paths)
    run.paths += len(ex.paths)
    if ex.unsupported or not ex.complete:
        run.undecided(name, function, "unsupported construct / path cap: " + "; ".join(ex.unsupported[:2]))
        return ex
    if not ex.paths:
        run.checker_failures.append(f"{name}: no feasible path (precondition contradictory?)")
        return ex
    args = holder["args"]
    rp = replay_functional(modname, fname, args, spec, tol)
    for pi, p in enumerate(ex.paths):
        tag = name if len(ex.paths) == 1 else f"{name}/path{pi}"
        H = list(ex.ctx.hyps) + list(p.pc) + list(p.lazy)
        if p.exc is not None:
            if isinstance(p.exc, allow_exc):
                continue
            # an exception on a feasible path: candidate violation, confirmed by replay of a model of the path
            run.prove(f"{tag}/no-exception", function, H, z3.BoolVal(False), replay=rp, kind="safety",
                      detail=f"path raises {type(p.exc).__name__}: {p.exc}")
            continue
        discharge_safety(run, tag, function, list(ex.ctx.hyps), p, replay=rp)
        want, spec_obl, spec_facts = eval_spec(spec, args, H)
        for k, o in enumerate(spec_obl):  # the contract value must be defined wherever the code returns
            run.prove(f"{tag}/spec-defined.{o.name}#{k}", function, H + list(o.pc), o.goal, replay=rp, kind="safety",
                      detail=f"contract value defined: {E.brief(o.goal, 160)}")
        prove_entries(run, tag, function, H + spec_facts, _pack(p.value), _pack(want), replay=rp, group=group)
    return ex


def _pack(v):
    if isinstance(v, (tuple, list)):
        parts = [np.asarray(x, dtype=object).reshape(-1) for x in v]
        return np.concatenate(parts) if parts else np.empty((0,), dtype=object)
    return np.asarray(v, dtype=object)


def eval_spec(spec, args, hyps):
    """Evaluate a contract expression on symbolic arguments inside a scratch context.

    Returns (value, obligations of the expression itself, facts it established)."""
    prev = S.Ctx.cur
    c = S.Ctx(hyps)
    S.Ctx.cur = c
    try:
        c.reset_path([])
        want = spec(*args)
        return want, list(c.oblig), list(c.pc) + list(c.lazy)
    finally:
        S.Ctx.cur = prev
