"""A-TRIG: axioms for the uninterpreted trigonometric atoms, instantiated at the terms that occur."""
import z3

from . import sym as S


def _apps(t, name, acc, seen):
    if t.get_id() in seen:
        return
    seen.add(t.get_id())
    if z3.is_app(t):
        if t.decl().name() == name:
            acc[t.get_id()] = t
        for c in t.children():
            _apps(c, name, acc, seen)


def axioms(terms):
    """sin^2+cos^2 = 1; cos(acos u) = u, sin(acos u) = sqrt(1-u^2) >= 0, acos in [0, pi];
    cos/sin(atan2(y, x)) = x/rho, y/rho for rho = sqrt(x^2+y^2) > 0."""
    sin, cos, acos, at2 = {}, {}, {}, {}
    for t in terms:
        seen = set()
        for nm, acc in (("SIN", sin), ("COS", cos), ("ACOS", acos), ("ATAN2", at2)):
            _apps(t, nm, acc, set())
    ax = []
    k = 0
    args = {}
    for app in list(sin.values()) + list(cos.values()):
        args[app.arg(0).get_id()] = app.arg(0)
    for a in args.values():
        ax.append(S.SIN(a) * S.SIN(a) + S.COS(a) * S.COS(a) == 1)
    for a in acos.values():
        u = a.arg(0)
        w = z3.Real(f"trig!w{k}")
        k += 1
        ax += [z3.Implies(z3.And(u >= -1, u <= 1), z3.And(S.COS(a) == u, S.SIN(a) == w, w >= 0, w * w == 1 - u * u, a >= 0, a <= S.PI))]
    for a in at2.values():
        y, x = a.arg(0), a.arg(1)
        rho = z3.Real(f"trig!rho{k}")
        k += 1
        ax += [rho >= 0, rho * rho == x * x + y * y, z3.Implies(rho > 0, z3.And(S.COS(a) * rho == x, S.SIN(a) * rho == y)), a > -S.PI, a <= S.PI]
    return ax
