"""Native side: the real PyDRex (JIT enabled) in separate interpreters.

call(module, func, kwargs)            one synchronous call in a persistent worker
pmap(module, func, list_of_kwargs)    the same function over many inputs on up to 16 workers
Worker protocol: one JSON object per line on stdin/stdout.
"""
from __future__ import annotations

import json
import os
import subprocess
import sys
import threading

ROOT = os.path.dirname(os.path.dirname(os.path.abspath(__file__)))
PY = os.path.join(ROOT, ".env", "bin", "python")


def _env(jit=True):
    env = dict(os.environ)
    env.pop("NUMBA_DISABLE_JIT", None)
    if not jit:
        env["NUMBA_DISABLE_JIT"] = "1"
    env["PYTHONPATH"] = ROOT + os.pathsep + env.get("PV_SRC", "")
    env["PYDREX_LOG_QUIET"] = "1"
    env.setdefault("NUMBA_NUM_THREADS", "1")
    env.setdefault("OMP_NUM_THREADS", "1")
    env.setdefault("OPENBLAS_NUM_THREADS", "1")
    env.setdefault("MPLBACKEND", "Agg")
    return env


class Worker:
    def __init__(self, jit=True):
        self.p = subprocess.Popen([PY, "-m", "pv.native"], stdin=subprocess.PIPE, stdout=subprocess.PIPE,
                                  stderr=subprocess.DEVNULL, text=True, env=_env(jit), cwd=ROOT, bufsize=1)

    def call(self, module, func, kwargs, timeout=None):
        import select
        import time as _t

        timeout = timeout or float(os.environ.get("PV_NATIVE_TIMEOUT", "240"))
        if os.environ.get("PV_TIER") == "thorough":
            timeout *= 6  # thorough jobs carry many more cases each
        try:  # wall-clock limits are stretched on a busy machine (same rule as pv.report)
            timeout *= min(4.0, max(1.0, os.getloadavg()[0] / (0.6 * (os.cpu_count() or 16))))
        except OSError:
            pass
        self.p.stdin.write(json.dumps(dict(module=module, func=func, kwargs=kwargs)) + "\n")
        self.p.stdin.flush()
        t_end = _t.time() + timeout
        while True:
            left = t_end - _t.time()
            ready, _, _ = select.select([self.p.stdout], [], [], max(0.0, left))
            if not ready:
                self.p.kill()
                raise TimeoutError(f"native job {module}.{func} exceeded {timeout:.0f}s (worker killed)")
            line = self.p.stdout.readline()
            if not line:
                raise RuntimeError("native worker died")
            if line.startswith("@@PV@@"):
                out = json.loads(line[6:])
                if "error" in out:
                    raise RuntimeError("native worker error: " + out["error"])
                return out["result"]

    def close(self):
        try:
            self.p.stdin.close()
            self.p.wait(timeout=5)
        except Exception:
            self.p.kill()


_W = {}


def call(module, func, kwargs, jit=True, timeout=None):
    w = _W.get(jit)
    if w is None or w.p.poll() is not None:
        w = _W[jit] = Worker(jit)
    return w.call(module, func, kwargs, timeout)


def pmap(module, func, jobs, nproc=None, jit=True, timeout=None):
    nproc = max(1, min(nproc or int(os.environ.get("PV_NPROC", "14")), len(jobs)))
    results = [None] * len(jobs)
    errors = []
    lock = threading.Lock()
    it = iter(enumerate(jobs))

    def run():
        w = Worker(jit)
        try:
            while True:
                with lock:
                    try:
                        i, kw = next(it)
                    except StopIteration:
                        return
                try:
                    results[i] = w.call(module, func, kw, timeout)
                except Exception as e:  # worker crash is a checker problem, not a violation
                    errors.append(f"job {i}: {e}")
                    results[i] = dict(_error=str(e))
                    if w.p.poll() is not None:
                        w = Worker(jit)
        finally:
            w.close()

    ts = [threading.Thread(target=run) for _ in range(nproc)]
    for t in ts:
        t.start()
    for t in ts:
        t.join()
    return results, errors


def close_all():
    for w in _W.values():
        w.close()
    _W.clear()


def _serve():
    import importlib
    import logging
    import traceback

    logging.disable(logging.CRITICAL)
    src = os.environ.get("PV_SRC")
    if src:
        sys.path.insert(0, src)
    for line in sys.stdin:
        line = line.strip()
        if not line:
            continue
        try:
            req = json.loads(line)
            mod = importlib.import_module(req["module"])
            res = getattr(mod, req["func"])(**req["kwargs"])
            out = dict(result=res)
        except Exception:
            out = dict(error=traceback.format_exc()[-3000:])
        from pv.report import _jsonable

        sys.stdout.write("@@PV@@" + json.dumps(out, default=_jsonable) + "\n")
        sys.stdout.flush()


if __name__ == "__main__":
    _serve()
