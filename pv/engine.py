"""Path exploration of real code objects, rebinding of module globals, discharging of obligations."""
from __future__ import annotations

import os
import subprocess
import tempfile
import time
import types
from fractions import Fraction

import numpy as _np
import z3

from . import sym as S
from .sym import Ctx, Infeasible, NonFinite, Obl, Unsupported

UNSUPPORTED_EXC = (Unsupported, NotImplementedError)


# ----------------------------------------------------------------------------- rebinding
def rebind_module(module, overrides=None, np_shim=None, keep=()):
    """New globals dict for `module`: same code objects, selected names rebound.

    Every plain function defined in the module is re-created over the new globals (same
    __code__), so intra-module calls reach the overrides (contract stubs)."""
    g = dict(module.__dict__)
    if "np" in g:
        g["np"] = np_shim if np_shim is not None else S.NPShim()
    for k, v in list(module.__dict__.items()):
        if isinstance(v, types.FunctionType) and v.__module__ == module.__name__:
            nf = types.FunctionType(v.__code__, g, v.__name__, v.__defaults__, v.__closure__)
            nf.__kwdefaults__ = v.__kwdefaults__
            nf.__dict__.update(v.__dict__)
            g[k] = nf
    if overrides:
        g.update(overrides)
    return g


def rebind_function(f, g):
    f = getattr(f, "py_func", f)
    f = getattr(f, "__func__", f)
    nf = types.FunctionType(f.__code__, g, f.__name__, f.__defaults__, f.__closure__)
    nf.__kwdefaults__ = f.__kwdefaults__
    return nf


class PathResult:
    __slots__ = ("pc", "lazy", "value", "exc", "oblig", "extra")

    def __init__(self, pc, lazy, value, exc, oblig, extra=None):
        self.pc, self.lazy, self.value, self.exc, self.oblig, self.extra = pc, lazy, value, exc, oblig, extra


class Exploration:
    def __init__(self, ctx, paths, complete, unsupported):
        self.ctx, self.paths, self.complete, self.unsupported = ctx, paths, complete, unsupported


PROXY_NAMES = ("LArr", "YVec", "Packed", "Flat", "RepeatN", "SymArray", "SymBool", "SymInt", "'Sym'", "Masked", "MonList", "_LV", "_MA", "_Stack", "_OutBuf", "LiftedBase", "z3.", "ArithRef", "BoolRef")


def harness_artifact(e):
    """True when an exception raised while the real code ran on proxy values is a limitation of the proxies, not behaviour of
    the code: a TypeError / AttributeError / NotImplementedError (or IndexError / ValueError) whose message names a proxy class
    or whose innermost frame lies inside pv/ (the engine) rather than in the code under verification."""
    import traceback

    if isinstance(e, (TypeError, AttributeError, NotImplementedError)) and any(nm in str(e) for nm in PROXY_NAMES):
        return True
    if isinstance(e, TypeError) and "ufunc" in str(e) and "not supported for the input types" in str(e):
        return True  # a numpy ufunc without an object loop (isfinite, isnan, ...) met a proxy: real float inputs always have that loop
    tb = traceback.extract_tb(e.__traceback__)
    if tb and isinstance(e, (TypeError, AttributeError, NotImplementedError, IndexError, ValueError, KeyError)):
        inner = tb[-1].filename.replace("\\", "/")
        if "/pv/" in inner and "/pydrex/" not in inner:
            return True
    return False


def explore(run, hyps=(), max_paths=3000, feas_timeout_ms=1500, time_budget_s=None):
    """Execute `run()` on every feasible path.  `run` must build its own symbolic inputs
    (deterministically named) and return the value to be judged; it may return a tuple
    (value, extra).  Exceptions raised by the code under verification are path results."""
    c = Ctx(hyps, feas_timeout_ms=feas_timeout_ms, max_paths=max_paths)
    c.exploring = True
    prev = Ctx.cur
    Ctx.cur = c
    paths, unsupported, dead = [], [], []
    c.work.append([])
    complete = True
    t0 = time.time()
    try:
        while c.work:
            if len(paths) >= max_paths or (time_budget_s and time.time() - t0 > time_budget_s) or (DEADLINE[0] is not None and time.time() > DEADLINE[0]):
                complete = False
                unsupported.append("time budget of this section exhausted during path exploration")
                break
            c.reset_path(c.work.pop())
            try:
                out = run()
                paths.append(PathResult(list(c.pc), list(c.lazy), out, None, list(c.oblig)))
            except Infeasible:
                # obligations recorded before the path died still count: a path can only die after an unprovable
                # safety obligation was assumed (e.g. division by something that is zero on this path)
                if c.oblig and any(z3.is_false(o.goal) for o in c.oblig):
                    paths.append(PathResult(list(c.pc), list(c.lazy), None, ZeroDivisionError("division by zero"), list(c.oblig)))
                elif c.oblig:
                    dead.append(PathResult(list(c.pc), list(c.lazy), None, Infeasible(), list(c.oblig)))
                continue
            except UNSUPPORTED_EXC as e:
                unsupported.append(f"{type(e).__name__}: {e}")
                complete = False
            except NonFinite as e:
                paths.append(PathResult(list(c.pc), list(c.lazy), None, e, list(c.oblig)))
            except Exception as e:  # path result: judged by the contract
                import traceback

                if harness_artifact(e):
                    unsupported.append(f"proxy limitation: {type(e).__name__}: {str(e)[:160]}")
                    complete = False
                    continue
                e._pv_tb = traceback.format_exc()
                paths.append(PathResult(list(c.pc), list(c.lazy), None, e, list(c.oblig)))
    finally:
        Ctx.cur = prev
    ex = Exploration(c, paths, complete, unsupported)
    ex.dead = dead
    return ex


# ----------------------------------------------------------------------------- rational normal form
def ratform(t, cache=None):
    """(N, D) with t == N/D, N and D division-free over the atoms of t (If / UF atoms opaque)."""
    if cache is None:
        cache = {}
    key = t.get_id()
    if key in cache:
        return cache[key]
    one = z3.RealVal(1)
    k = t.decl().kind() if z3.is_app(t) else None
    if k == z3.Z3_OP_ADD:
        n, d = ratform(t.arg(0), cache)
        for i in range(1, t.num_args()):
            n2, d2 = ratform(t.arg(i), cache)
            if z3.eq(d, d2):
                n = n + n2
            elif z3.eq(d2, one):
                n = n + n2 * d
            elif z3.eq(d, one):
                n, d = n * d2 + n2, d2
            else:
                n, d = n * d2 + n2 * d, d * d2
        r = (n, d)
    elif k == z3.Z3_OP_SUB:
        n, d = ratform(t.arg(0), cache)
        for i in range(1, t.num_args()):
            n2, d2 = ratform(t.arg(i), cache)
            if z3.eq(d, d2):
                n = n - n2
            elif z3.eq(d2, one):
                n = n - n2 * d
            elif z3.eq(d, one):
                n, d = n * d2 - n2, d2
            else:
                n, d = n * d2 - n2 * d, d * d2
        r = (n, d)
    elif k == z3.Z3_OP_UMINUS:
        n, d = ratform(t.arg(0), cache)
        r = (-n, d)
    elif k == z3.Z3_OP_MUL:
        n, d = ratform(t.arg(0), cache)
        for i in range(1, t.num_args()):
            n2, d2 = ratform(t.arg(i), cache)
            n = n * n2
            d = d2 if z3.eq(d, one) else (d if z3.eq(d2, one) else d * d2)
        r = (n, d)
    elif k == z3.Z3_OP_DIV:
        n1, d1 = ratform(t.arg(0), cache)
        n2, d2 = ratform(t.arg(1), cache)
        if z3.is_rational_value(t.arg(1)):
            r = (n1, t.arg(1) if z3.eq(d1, one) else d1 * t.arg(1))
        else:
            n = n1 if z3.eq(d2, one) else n1 * d2
            d = n2 if z3.eq(d1, one) else d1 * n2
            r = (n, d)
    else:
        r = (t, one)
    cache[key] = r
    return r


def eq_cleared(a, b):
    """Formula equivalent to a == b when all denominators are non-zero, without divisions."""
    cache = {}
    na, da = ratform(S.zz(a) if not z3.is_expr(a) else a, cache)
    nb, db = ratform(S.zz(b) if not z3.is_expr(b) else b, cache)
    if z3.eq(da, db):
        return na == nb
    return na * db == nb * da


def denominators(t, acc=None, seen=None):
    """All divisor subterms of t (for use as hypotheses d != 0 once their obligations are proved)."""
    if acc is None:
        acc, seen = [], set()
    if t.get_id() in seen:
        return acc
    seen.add(t.get_id())
    if z3.is_app(t):
        if t.decl().kind() == z3.Z3_OP_DIV and not z3.is_rational_value(t.arg(1)):
            acc.append(t.arg(1))
        for ch in t.children():
            denominators(ch, acc, seen)
    return acc


def _is_one(t):
    return z3.is_rational_value(t) and t.numerator_as_long() == t.denominator_as_long()


def _mul(a, b):
    if _is_one(a):
        return b
    if _is_one(b):
        return a
    return a * b


def ratform2(t, cache):
    """Like ratform, but also lifts divisions out of If-terms (conditions cleared too)."""
    key = ("r", t.get_id())
    if key in cache:
        return cache[key]
    one = z3.RealVal(1)
    k = t.decl().kind() if z3.is_app(t) else None
    if k in (z3.Z3_OP_ADD, z3.Z3_OP_SUB):
        n, d = ratform2(t.arg(0), cache)
        for i in range(1, t.num_args()):
            n2, d2 = ratform2(t.arg(i), cache)
            sgn = (lambda a, b: a + b) if k == z3.Z3_OP_ADD else (lambda a, b: a - b)
            if z3.eq(d, d2):
                n = sgn(n, n2)
            else:
                n, d = sgn(_mul(n, d2), _mul(n2, d)), _mul(d, d2)
        r = (n, d)
    elif k == z3.Z3_OP_UMINUS:
        n, d = ratform2(t.arg(0), cache)
        r = (-n, d)
    elif k == z3.Z3_OP_MUL:
        n, d = ratform2(t.arg(0), cache)
        for i in range(1, t.num_args()):
            n2, d2 = ratform2(t.arg(i), cache)
            n, d = _mul(n, n2), _mul(d, d2)
        r = (n, d)
    elif k == z3.Z3_OP_DIV:
        n1, d1 = ratform2(t.arg(0), cache)
        n2, d2 = ratform2(t.arg(1), cache)
        r = (_mul(n1, d2), _mul(d1, n2))
    elif k == z3.Z3_OP_ITE and t.sort() == RS_:
        c = clear_formula(t.arg(0), cache)
        na, da = ratform2(t.arg(1), cache)
        nb, db = ratform2(t.arg(2), cache)
        if z3.eq(da, db):
            r = (z3.If(c, na, nb), da)
        else:
            r = (z3.If(c, _mul(na, db), _mul(nb, da)), _mul(da, db))
    else:
        r = (t, one)
    cache[key] = r
    return r


RS_ = z3.RealSort()
_CMP = {z3.Z3_OP_LE: lambda a: a <= 0, z3.Z3_OP_LT: lambda a: a < 0, z3.Z3_OP_GE: lambda a: a >= 0, z3.Z3_OP_GT: lambda a: a > 0}


def clear_formula(f, cache=None):
    """Equivalent formula without real division, valid where every denominator is non-zero."""
    if cache is None:
        cache = {}
    key = ("f", f.get_id())
    if key in cache:
        return cache[key]
    r = f
    if z3.is_quantifier(f):
        r = f
    elif z3.is_app(f):
        k = f.decl().kind()
        if k in (z3.Z3_OP_AND, z3.Z3_OP_OR):
            ch = [clear_formula(c, cache) for c in f.children()]
            r = z3.And(*ch) if k == z3.Z3_OP_AND else z3.Or(*ch)
        elif k == z3.Z3_OP_NOT:
            r = z3.Not(clear_formula(f.arg(0), cache))
        elif k == z3.Z3_OP_IMPLIES:
            r = z3.Implies(clear_formula(f.arg(0), cache), clear_formula(f.arg(1), cache))
        elif k == z3.Z3_OP_ITE:
            r = z3.If(clear_formula(f.arg(0), cache), clear_formula(f.arg(1), cache), clear_formula(f.arg(2), cache))
        elif k in (z3.Z3_OP_EQ, z3.Z3_OP_DISTINCT) and f.num_args() == 2 and f.arg(0).sort() == RS_:
            n1, d1 = ratform2(f.arg(0), cache)
            n2, d2 = ratform2(f.arg(1), cache)
            lhs, rhs = (n1, n2) if z3.eq(d1, d2) else (_mul(n1, d2), _mul(n2, d1))
            r = (lhs == rhs) if k == z3.Z3_OP_EQ else (lhs != rhs)
        elif k in (z3.Z3_OP_EQ,) and f.num_args() == 2 and z3.is_bool(f.arg(0)):
            r = clear_formula(f.arg(0), cache) == clear_formula(f.arg(1), cache)
        elif k in _CMP and f.arg(0).sort() == RS_:
            n1, d1 = ratform2(f.arg(0), cache)
            n2, d2 = ratform2(f.arg(1), cache)
            if _is_one(d1) and _is_one(d2):
                r = _CMP[k](n1 - n2)
            else:
                num = (n1 - n2) if z3.eq(d1, d2) else (_mul(n1, d2) - _mul(n2, d1))
                den = d1 if z3.eq(d1, d2) else _mul(d1, d2)
                if z3.is_rational_value(den):
                    r = _CMP[k](num) if den.numerator_as_long() > 0 else _CMP[k](-num)
                else:
                    r = _CMP[k](num * den)  # sign(num/den) == sign(num*den) for den != 0
    cache[key] = r
    return r


def _known_nonzero(hyps):
    ids = set()
    def visit(h):
        if not z3.is_app(h):
            return
        k = h.decl().kind()
        if k == z3.Z3_OP_AND:
            for c in h.children():
                visit(c)
        elif k == z3.Z3_OP_DISTINCT and h.num_args() == 2 and z3.is_rational_value(h.arg(1)) and h.arg(1).numerator_as_long() == 0:
            ids.add(h.arg(0).get_id())
        elif k == z3.Z3_OP_NOT and z3.is_app(h.arg(0)) and h.arg(0).decl().kind() == z3.Z3_OP_EQ:
            e = h.arg(0)
            if z3.is_rational_value(e.arg(1)) and e.arg(1).numerator_as_long() == 0:
                ids.add(e.arg(0).get_id())
        elif k in (z3.Z3_OP_GT, z3.Z3_OP_LT) and z3.is_rational_value(h.arg(1)) and h.arg(1).numerator_as_long() == 0:
            ids.add(h.arg(0).get_id())
    for h in hyps:
        visit(h)
    return ids


def try_clear(hyps, goal):
    """Clear denominators in hyps/goal when every divisor is syntactically known non-zero in hyps."""
    dens = []
    seen = set()
    for t in list(hyps) + [goal]:
        denominators(t, dens, seen)
    if not dens:
        return hyps, goal, False
    nz = _known_nonzero(hyps)
    for d in dens:
        if z3.is_rational_value(d):
            continue
        if d.get_id() not in nz:
            return hyps, goal, False
    cache = {}
    return [clear_formula(h, cache) for h in hyps], clear_formula(goal, cache), True


# ----------------------------------------------------------------------------- axioms for atoms
def pow_axioms(terms):
    """Instantiate A-POW at every POW application occurring in `terms`."""
    apps = {}
    for t in terms:
        _collect(t, "POW", apps)
    ax = []
    lst = list(apps.values())
    for p in lst:
        x, a = p.arg(0), p.arg(1)
        ax += [
            z3.Implies(z3.And(x == 0, a > 0), p == 0),
            z3.Implies(a == 0, p == 1),
            z3.Implies(x > 0, p > 0),
            z3.Implies(x >= 0, p >= 0),
            z3.Implies(a == 1, p == x),
            z3.Implies(x == 1, p == 1),
        ]
    for i, p in enumerate(lst):
        for q in lst[i + 1 :]:
            # same exponent: monotone and multiplicative on non-negative bases are not needed so far
            ax.append(z3.Implies(z3.And(p.arg(0) == q.arg(0), p.arg(1) == q.arg(1)), p == q))
    return ax


def exp_axioms(terms):
    apps = {}
    for t in terms:
        _collect(t, "EXP", apps)
    ax = []
    for p in apps.values():
        ax += [p > 0, z3.Implies(p.arg(0) == 0, p == 1), z3.Implies(p.arg(0) <= 0, p <= 1)]
    return ax


def _collect(t, name, acc, seen=None):
    if seen is None:
        seen = set()
    if t.get_id() in seen:
        return
    seen.add(t.get_id())
    if z3.is_app(t):
        if t.decl().name() == name:
            acc[t.get_id()] = t
        for ch in t.children():
            _collect(ch, name, acc, seen)


def atoms_axioms(terms):
    return pow_axioms(terms) + exp_axioms(terms)


# ----------------------------------------------------------------------------- discharging
class Verdict:
    __slots__ = ("status", "model", "backend", "secs", "reason")

    def __init__(self, status, model=None, backend="z3", secs=0.0, reason=""):
        self.status, self.model, self.backend, self.secs, self.reason = status, model, backend, secs, reason

    def __repr__(self):
        return f"Verdict({self.status}, {self.backend}, {self.secs:.2f}s)"


Z3_NEW = "z3-new"
CVC5_BIN = "/usr/bin/cvc5"


DEADLINE = [None]  # wall-clock deadline of the current section (set by pv.report); solver calls never outlive it


def prove(hyps, goal, timeout_s=10.0, use_cvc5=True, want_model=True, axioms=True, clear=True):
    """Try to prove  And(hyps) => goal.   proved | refuted (with model) | undecided."""
    if DEADLINE[0] is not None:
        left = DEADLINE[0] - time.time()
        if left <= 0.2:
            return Verdict("undecided", None, "", 0.0, "time budget of this section exhausted")
        timeout_s = max(0.2, min(timeout_s, left))
    hyps = list(hyps)
    if axioms:
        hyps = hyps + atoms_axioms(hyps + [goal])
    t0 = time.time()
    if clear:
        hyps, goal, _ = try_clear(hyps, goal)
    s = z3.Solver()
    quick_ms = int(min(timeout_s, 1.5) * 1000)
    s.set("timeout", quick_ms)
    for h in hyps:
        s.add(h)
    s.add(z3.Not(goal))
    r = s.check()
    dt = time.time() - t0
    if r == z3.unsat:
        return Verdict("proved", None, "z3-5.1(api)", dt)
    if r == z3.sat:
        return Verdict("refuted", s.model() if want_model else None, "z3-5.1(api)", dt)
    # portfolio: a short z3 attempt, then cvc5 (often instant on what nlsat finds hard), then z3 with the full budget
    smt = None
    if use_cvc5:
        smt = s.to_smt2()
        v = _cvc5("(set-logic ALL)\n" + smt, timeout_s)
        if v is not None:
            v.secs += dt
            return v
    if timeout_s * 1000 > quick_ms:
        s.set("timeout", int(timeout_s * 1000))
        r = s.check()
        dt = time.time() - t0
        if r == z3.unsat:
            return Verdict("proved", None, "z3-5.1(api)", dt)
        if r == z3.sat:
            return Verdict("refuted", s.model() if want_model else None, "z3-5.1(api)", dt)
    reason = s.reason_unknown()
    if use_cvc5 and smt is not None:
        v = _z3_old(smt, timeout_s)
        if v is not None:
            v.secs += dt
            return v
    return Verdict("undecided", None, "z3-5.1(api)", time.time() - t0, reason)


def _cvc5(smt, timeout_s):
    if not os.path.exists(CVC5_BIN):
        return None
    t0 = time.time()
    with tempfile.NamedTemporaryFile("w", suffix=".smt2", delete=False, dir=os.environ.get("VERIF_SCRATCH")) as f:
        f.write(smt)
        path = f.name
    try:
        out = subprocess.run(
            [CVC5_BIN, "--tlimit", str(int(timeout_s * 1000)), path],
            capture_output=True, text=True, timeout=timeout_s + 5,
        ).stdout.strip().splitlines()
    except Exception:
        out = []
    finally:
        os.unlink(path)
    dt = time.time() - t0
    if out and out[0] == "unsat":
        return Verdict("proved", None, "cvc5-1.0.3", dt)
    return None  # a cvc5 'sat' carries no model we can replay: leave undecided for z3 to retry


def _z3_old(smt, timeout_s):
    t0 = time.time()
    with tempfile.NamedTemporaryFile("w", suffix=".smt2", delete=False, dir=os.environ.get("VERIF_SCRATCH")) as f:
        f.write(smt)
        path = f.name
    try:
        out = subprocess.run(
            ["/usr/bin/z3", f"-T:{int(timeout_s)}", path], capture_output=True, text=True, timeout=timeout_s + 5
        ).stdout.strip().splitlines()
    except Exception:
        out = []
    finally:
        os.unlink(path)
    if out and out[0] == "unsat":
        return Verdict("proved", None, "z3-4.8.12", time.time() - t0)
    return None


def model_value(m, t, default=0.0):
    """Evaluate term t in model m as a float (model completion: unassigned -> default)."""
    v = m.eval(t, model_completion=True)
    return z3val_to_float(v, default)


def z3val_to_float(v, default=0.0):
    if z3.is_rational_value(v):
        return float(Fraction(v.numerator_as_long(), v.denominator_as_long()))
    if z3.is_int_value(v):
        return float(v.as_long())
    if z3.is_algebraic_value(v):
        a = v.approx(20)
        return float(Fraction(a.numerator_as_long(), a.denominator_as_long()))
    if z3.is_true(v):
        return 1.0
    if z3.is_false(v):
        return 0.0
    try:
        return float(str(v))
    except Exception:
        return default


def model_array(m, arr):
    a = _np.asarray(arr, dtype=object)
    out = _np.zeros(a.shape, dtype=float)
    for ix in _np.ndindex(*a.shape):
        v = a[ix]
        out[ix] = model_value(m, S.zz(v)) if isinstance(v, S.Sym) else float(v)
    return out


def brief(t, budget=220):
    """Bounded-size rendering of a z3 term (the stock pretty printer is quadratic on large DAGs)."""
    out = []
    left = [budget]

    def go(e, depth):
        if left[0] <= 0:
            return
        if not z3.is_expr(e):
            tok = str(e)
        elif z3.is_quantifier(e):
            tok = "forall.."
        elif e.num_args() == 0:
            tok = str(e)
        else:
            name = e.decl().name()
            if depth > 6:
                tok = f"({name} ..)"
            else:
                out.append("(" + name)
                left[0] -= len(name) + 1
                for i in range(e.num_args()):
                    if left[0] <= 0:
                        out.append(" ..")
                        break
                    out.append(" ")
                    go(e.arg(i), depth + 1)
                out.append(")")
                left[0] -= 2
                return
        out.append(tok)
        left[0] -= len(tok)

    go(t, 0)
    return "".join(out)
