"""Run bookkeeping: obligations, bounded stand-ins, known findings, replay files, evidence."""
from __future__ import annotations

import json
import os
import re
import sys
import time
import traceback

import z3

from . import engine as E

ROOT = os.path.dirname(os.path.dirname(os.path.abspath(__file__)))
EVID = os.path.join(ROOT, "evidence")
REPLAYS = os.path.join(ROOT, "replays")
KNOWN = os.path.join(ROOT, "known_findings.jsonl")

CATALOGUE = {
    "S-REAL": "IEEE-754 doubles treated as exact reals (no rounding/overflow/NaN/signed zero)",
    "S-PY": "CPython executes the constructs; values: int exact, float = real",
    "S-NUMPY": "structural NumPy semantics executed by NumPy on object arrays; clip/abs/max/where/sign/argsort given their documented element-wise meaning",
    "S-NUMBA": "Numba-generated machine code (fastmath) computes the same function as the Python source",
    "A-QUAT": "every proper rotation is Qn(q)/|q|^2 for some q != 0 (Euler-Rodrigues)",
    "A-SIGMA": "finite-sum laws (homogeneity, additivity, congruence, monotonicity, re-indexing); proved in lean/PvSigma.lean against Mathlib",
    "A-POW": "x^a: 0^a=0 (a>0), x^0=1, x^1=x, 1^a=1, x>0 => x^a>0; EXP>0, EXP(0)=1, EXP(x)<=1 for x<=0; sqrt as the witness w>=0, w*w=x -- proved in lean/PvAtoms.lean against Mathlib for Real.rpow / Real.exp / Real.sqrt; assumed: the floating-point library functions behave like these real functions",
    "A-TRIG": "sin^2+cos^2=1, cos(acos u)=u, sin(acos u)=sqrt(1-u^2), cos/sin(atan2(y,x))=x/rho,y/rho, ranges of acos/atan2 -- proved in lean/PvAtoms.lean against Mathlib for Real.sin/cos/arccos and Complex.arg; assumed: the floating-point library functions behave like these real functions",
    "A-DIFF": "differentiation rules of the term language (sum, product, quotient, integer power, SIN, COS, ATAN2); cross-checked with sympy",
    "A-LSODA": "LSODA.step() yields a finite y with positive total fraction mass or status 'failed'; integrates to the requested tolerances; deterministic; step control covariant under time rescaling",
    "A-EIG": "eigvalsh/eigh return ascending real eigenvalues/orthonormal eigenvectors of the symmetric matrix; svd returns orthogonal U,Vh and S>=0 with M=U diag(S) Vh; det/norm as defined",
    "A-RNG": "Rotation.random(n, random_state) returns proper rotations reproducibly; default_rng(seed).random(k) reproducible values in the open interval (0,1)",
    "A-NPZ": "np.load(f)[k] returns bit-for-bit what savez / np.save-into-ZipFile stored under k; distinct member names coexist",
    "A-CODEC": "yaml.safe_load, csv reader/writer, tomllib, str()/int()/float()/complex() conversions",
    "A-NUMPY-MA": "numpy.ma: masked_where(c, a) masks where c; arithmetic masks the union of the operands' masks plus x/0 and sqrt(<0) (domain); filled() puts fill_value at masked places",
    "A-POOL": "Pool.imap yields f(x_i) in input order for every worker count",
    "A-SCIPY-Q": "Rotation.from_matrix(.).as_quat(), from_rotvec, from_euler are the standard conversions",
}


LEAN_FILES = {"A-SIGMA": "PvSigma.lean", "A-POW": "PvAtoms.lean", "A-TRIG": "PvAtoms.lean"}


def lean_recheck(assumptions, budget_s=900):
    """Thorough tier: the Lean proofs behind A-SIGMA / A-POW / A-TRIG are re-checked by `lean` (Mathlib) in this run.
    Returns (notes, failures)."""
    import shutil
    import subprocess

    files = sorted({LEAN_FILES[a] for a in assumptions if a in LEAN_FILES})
    notes, fails = [], []
    if not files:
        return notes, fails
    if shutil.which("lean") is None:
        return [f"lean not on PATH: {files} not re-checked in this run"], fails
    for f in files:
        t0 = time.time()
        try:
            r = subprocess.run(["lean", os.path.join(ROOT, "lean", f)], capture_output=True, text=True, timeout=budget_s, cwd=os.path.join(ROOT, "lean"))
            out = (r.stdout + r.stderr).strip()
            bad = r.returncode != 0 or "error:" in out or "sorry" in out
            if bad:
                fails.append(f"lean rejects lean/{f}: {out[:300]}")
            else:
                notes.append(f"lean/{f} re-checked by lean (Mathlib) in this run: accepted, no sorry, {time.time() - t0:.0f}s")
        except subprocess.TimeoutExpired:
            notes.append(f"lean/{f}: re-check exceeded {budget_s}s and was abandoned (not counted either way)")
    return notes, fails


def load_known(pid):
    out = []
    if os.path.exists(KNOWN):
        for line in open(KNOWN):
            line = line.strip()
            if not line or line.startswith("#") or line.startswith("fixed:"):
                continue
            d = json.loads(line)
            if d.get("property") == pid:
                out.append(d)
    return out


class Run:
    def __init__(self, pid, tier="quick", seed=0):
        self.pid, self.tier, self.seed = pid, tier, seed
        self.t0 = time.time()
        self.functions = {}
        self.obls = []
        self.bounded = []
        self.assumptions = set()
        self.violations = []
        self.known_hits = []
        self.known = load_known(pid)
        self.notes = []
        self.solver_secs = {}
        self.samples = []
        self.checker_failures = []
        self.exhaustive_parts = []
        # budgets are wall-clock; on a machine busy with other work they are stretched (up to 4x) so that verdicts
        # do not flip to "undecided" because of load
        try:
            self.load_factor = min(4.0, max(1.0, os.getloadavg()[0] / (0.6 * (os.cpu_count() or 16))))
        except OSError:
            self.load_factor = 1.0
        self.per_obl_timeout = self.load_factor * float(os.environ.get("PV_TIMEOUT", 10 if tier == "quick" else 60))
        self.paths = 0
        self.tmul = max(1, int(os.environ.get("PV_THOROUGH_MUL", "3")))  # the thorough tier's stand-in sizes are multiplied by this
        self.level_override = None  # a check whose substance is bounded claims "other" even when its few obligations discharge
        self.nonproved = 0
        self.section_budget = self.load_factor * float(os.environ.get("PV_SECTION_BUDGET", 150 if tier == "quick" else 1200))
        self.deadline = self.t0 + self.load_factor * (float(os.environ.get("PV_RUN_BUDGET", 600 if tier == "quick" else 3600)))

    # ---------------------------------------------------------------- bookkeeping
    def assume(self, *ids):
        for i in ids:
            self.assumptions.add(i)

    def function(self, name, note=""):
        self.functions.setdefault(name, note)

    def log(self, msg):
        print(f"[{self.pid}] {msg}", flush=True)

    def note(self, msg):
        self.notes.append(msg)

    def _known_match(self, name):
        for k in self.known:
            pat = k.get("obligation")
            if pat and (pat == name or re.fullmatch(pat, name)):
                return k
        return None

    def record(self, name, function, status, backend="", secs=0.0, detail="", kind="post"):
        self.function(function)
        self.obls.append(dict(name=name, function=function, kind=kind, status=status, backend=backend, secs=round(secs, 4), detail=detail))
        if status != "proved":
            self.nonproved += 1
        if os.environ.get("PV_VERBOSE"):
            print(f"  [{time.time() - self.t0:7.1f}s] {status:10s} {secs:6.2f}s {backend:12s} {name}", flush=True)
        if backend:
            self.solver_secs[backend] = self.solver_secs.get(backend, 0.0) + secs
        if len(self.samples) < 6 and status == "proved" and detail:
            self.samples.append(dict(obligation=name, function=function, formula=detail[:400], backend=backend))

    # ---------------------------------------------------------------- proving
    def prove(self, name, function, hyps, goal, replay=None, kind="post", timeout=None, structural=False, detail=None, lazy=(), concretise=()):
        """Discharge one obligation.  `replay(model)` -> (confirmed, info) runs the real code.

        lazy:        definitional equalities of contract stubs, only supplied when the proof needs them
        concretise:  lists of extra hypotheses (e.g. a concrete orientation) that make the refutation query
                     easy; used only to *find* counterexamples, which are then replayed natively"""
        timeout = timeout or self.per_obl_timeout
        det = detail if detail is not None else _short(goal)
        if time.time() > self.deadline:
            self.record(name, function, "undecided", "", 0.0, f"{det} [time budget of this section exhausted before this obligation was tried]", kind)
            return "undecided"
        # enough violations / unproved obligations already: do not spend solver time on further searches
        hurry = len(self.violations) >= 3 or self.nonproved >= 12
        if hurry:
            timeout = min(timeout, 1.5)
        fallback = self.tier == "thorough" and not hurry

        def search():
            if replay is None or not concretise or hurry:
                return False
            for extra in concretise:
                try:
                    vc = E.prove(list(hyps) + list(lazy) + list(extra), goal, timeout_s=min(timeout, 5), use_cvc5=False)
                except z3.Z3Exception:
                    continue
                if vc.status == "refuted":
                    try:
                        confirmed, info = replay(vc.model)
                    except Exception as e:
                        confirmed, info = False, dict(replay_error=str(e))
                    if confirmed:
                        info = dict(info)
                        info.update(obligation=name, function=function, formula=det, solver_output=_model_str(vc.model))
                        self._violation(name, function, info, no_input=False, kind=kind, det=det, v=vc)
                        return True
            return False

        try:
            v = E.prove(hyps, goal, timeout_s=timeout, use_cvc5=(not lazy) and not hurry)
            if v.status == "proved":
                self.record(name, function, "proved", v.backend, v.secs, det, kind)
                return "proved"
            searched = False
            if lazy:
                if v.status == "refuted":
                    searched = True
                    if search():
                        return "refuted"
                v0 = v
                v = E.prove(list(hyps) + list(lazy), goal, timeout_s=timeout, use_cvc5=fallback)
                v.secs += v0.secs
                if v.status == "proved":
                    self.record(name, function, "proved", v.backend, v.secs, det, kind)
                    return "proved"
            if not searched and search():
                return "refuted"
        except z3.Z3Exception as e:
            self.record(name, function, "undecided", "z3", 0.0, f"solver error {e}", kind)
            return "undecided"
        if v.status == "undecided":
            self.record(name, function, "undecided", v.backend, v.secs, f"{det} [{v.reason}]", kind)
            return "undecided"
        # refuted: replay on the real code
        return self.refuted(name, function, v, list(hyps) + list(lazy), goal, replay, kind, structural, det)

    def refuted(self, name, function, v, hyps, goal, replay, kind, structural, det):
        model = v.model
        if replay is None:
            if structural:
                self._violation(name, function, dict(obligation=name, formula=det, solver_output=_model_str(model)), no_input=True, kind=kind, det=det, v=v)
                return "refuted"
            self.record(name, function, "undecided", v.backend, v.secs, f"{det} [refuted, no replay available]", kind)
            return "undecided"
        tried = []
        blockers = []
        for attempt in range(6):
            try:
                confirmed, info = replay(model)
            except Exception as e:
                confirmed, info = False, dict(replay_error=f"{type(e).__name__}: {e}", tb=traceback.format_exc()[-800:])
            tried.append(info)
            if confirmed:
                info = dict(info)
                info.update(obligation=name, function=function, formula=det, solver_output=_model_str(model))
                self._violation(name, function, info, no_input=False, kind=kind, det=det, v=v)
                return "refuted"
            # ask for another model
            blk = info.get("block") if isinstance(info, dict) else None
            if blk is None:
                break
            blockers.append(blk)
            v2 = E.prove(list(hyps) + blockers, goal, timeout_s=self.per_obl_timeout)
            if v2.status != "refuted":
                break
            model = v2.model
        self.record(name, function, "undecided", v.backend, v.secs, f"{det} [refuted by solver but replay on the real code did not confirm: encoding suspect]", kind)
        self.note(f"encoding suspect: {name}: {json.dumps(tried[-1], default=str)[:300]}")
        return "undecided"

    def _violation(self, name, function, info, no_input, kind, det, v=None):
        k = self._known_match(name)
        if k is not None:
            self.known_hits.append((k, name))
            self.record(name, function, "known-finding", v.backend if v else "", v.secs if v else 0.0, det, kind)
            return
        os.makedirs(os.path.join(REPLAYS, self.pid), exist_ok=True)
        import hashlib

        path = os.path.join(REPLAYS, self.pid, re.sub(r"[^A-Za-z0-9_.\-\[\],=]", "_", name)[:90] + "." + hashlib.md5(name.encode()).hexdigest()[:8] + ".json")
        info = dict(info)
        info.setdefault("property", self.pid)
        with open(path, "w") as f:
            json.dump(info, f, indent=1, default=_jsonable)
        self.violations.append((name, path, no_input))
        self.record(name, function, "refuted", v.backend if v else "", v.secs if v else 0.0, det, kind)

    def violation(self, name, function, info, no_input=False, kind="post", det=""):
        """Direct violation report (exhaustive enumeration / bounded stand-in with a concrete failing input)."""
        self._violation(name, function, info, no_input, kind, det)

    def exact(self, name, function, ok, detail="", info=None, kind="exhaustive"):
        """A decided, concrete (finite-domain) obligation."""
        if ok:
            self.record(name, function, "proved", "enumeration", 0.0, detail, kind)
        else:
            self._violation(name, function, dict(info or {}, obligation=name, detail=detail), no_input=not info or not info.get("inputs"), kind=kind, det=detail)
        return ok

    def undecided(self, name, function, why, kind="post"):
        self.record(name, function, "undecided", "", 0.0, why, kind)

    def canary(self, name, function, hyps, goal):
        """`goal` must NOT be provable; if it is, the pipeline is vacuous -> checker failure."""
        v = E.prove(hyps, goal, timeout_s=min(self.per_obl_timeout, 10))
        if v.status == "proved":
            self.checker_failures.append(f"canary {name} was proved: hypotheses contradictory or pipeline vacuous")
        return v.status

    def cover(self, name, hyps):
        """Hypotheses must be satisfiable (non-vacuity)."""
        s = z3.Solver()
        s.set("timeout", 10000)
        for h in hyps:
            s.add(h)
        r = s.check()
        if r == z3.unsat:
            self.checker_failures.append(f"cover {name}: precondition unsatisfiable")
        return r

    # ---------------------------------------------------------------- parallel sections (fork)
    def fork_map(self, func, items, nproc=None):
        """Run func(child_run, item) for every item in forked children and merge what they recorded."""
        import multiprocessing as mp

        nproc = max(1, min(nproc or int(os.environ.get("PV_NPROC", "14")), len(items)))
        if nproc == 1 or os.environ.get("PV_SERIAL"):
            for it in items:
                func(self, it)
            return
        ctx = mp.get_context("fork")
        with ctx.Pool(nproc, initializer=_child_init) as pool:
            outs = pool.map(_child_call, [(self.pid, self.tier, self.seed, func, it) for it in items], chunksize=1)
        for out in outs:
            self.merge(out)

    def export(self):
        return dict(functions=self.functions, obls=self.obls, bounded=self.bounded, assumptions=sorted(self.assumptions), violations=self.violations,
                    known_hits=self.known_hits, notes=self.notes, solver_secs=self.solver_secs, samples=self.samples,
                    checker_failures=self.checker_failures, paths=self.paths)

    def merge(self, d):
        self.functions.update(d["functions"])
        self.obls += d["obls"]
        self.bounded += d["bounded"]
        self.assumptions.update(d["assumptions"])
        self.violations += d["violations"]
        self.known_hits += d["known_hits"]
        self.notes += d["notes"]
        for k, v in d["solver_secs"].items():
            self.solver_secs[k] = self.solver_secs.get(k, 0.0) + v
        self.samples = (self.samples + d["samples"])[:6]
        self.checker_failures += d["checker_failures"]
        self.paths += d["paths"]

    # ---------------------------------------------------------------- bounded stand-ins
    def worker_errors(self, errs, njobs):
        """Native jobs that crashed or ran out of time are a problem of the checker, not of the code under verification."""
        if errs:
            self.note(f"{len(errs)}/{njobs} native jobs did not finish and are not counted: {errs[:2]}")
            if len(errs) * 2 > njobs:
                self.checker_failures.append(f"most native jobs of a bounded stand-in failed: {errs[0][:300]}")

    def bounded_result(self, name, function, bound, evaluations, failures, distinct=None):
        """failures: list of dict(inputs=..., observed=..., checker=...)"""
        self.function(function)
        if evaluations == 0:
            self.checker_failures.append(f"bounded stand-in '{name[:60]}' evaluated nothing")
        self.bounded.append(dict(name=name, function=function, bound=bound, evaluations=evaluations, failures=len(failures), distinct=distinct))
        for i, f in enumerate(failures[:3]):
            self._violation(f"{name}#{f.get('case', i)}", function, dict(f, obligation=name, bounded=True), no_input=False, kind="bounded", det=f.get("what", ""))

    # ---------------------------------------------------------------- finish
    def finish(self):
        wall = time.time() - self.t0
        counted = [o for o in self.obls if o["kind"] != "bounded"]
        n = len(counted)
        proved = sum(1 for o in counted if o["status"] == "proved")
        undec = [o["name"] for o in counted if o["status"] == "undecided"]
        refuted = [o["name"] for o in counted if o["status"] == "refuted"]
        knownf = [o["name"] for o in counted if o["status"] == "known-finding"]
        if n == 0:
            self.checker_failures.append("zero obligations generated")
        level = "proof" if (n > 0 and proved == n and not self.violations) else "other"
        if self.level_override:
            level = self.level_override
        seen_k = {}
        kkey = lambda k_: (k_.get("obligation"), k_.get("bounded"))  # hits found in forked sections come back as copies
        for k, nm in self.known_hits:
            seen_k.setdefault(kkey(k), (k, []))[1].append(nm)
        for k, nms in seen_k.values():
            print(f"KNOWN-FINDING: property={self.pid} {k.get('what', nms[0])} [{len(nms)} obligation(s), e.g. {nms[0]}]")
        stale = [k for k in self.known if kkey(k) not in seen_k]
        for k in stale:
            self.note(f"known finding not observed in this run (stale or not exercised in this tier): {k.get('obligation')}")
        trusted = sorted(self.assumptions)
        if self.tier == "thorough":
            ln, lf = lean_recheck(trusted)
            self.notes.extend(ln)
            self.checker_failures.extend(lf)
        elif any(a in LEAN_FILES for a in trusted):
            self.note("the Lean proofs behind " + ", ".join(a for a in trusted if a in LEAN_FILES) + " (lean/*.lean) are re-checked by the thorough tier")
        cov = dict(
            obligations=n,
            discharged=proved,
            checker_cmd=f"./check {self.pid} --tier {self.tier}",
            trusted_base=[f"{a}: {CATALOGUE.get(a, '')}" for a in trusted],
            functions_under_contract=sorted(self.functions),
            paths_explored=self.paths,
            undecided_obligations=undec,
            refuted_obligations=refuted,
            known_finding_obligations=knownf,
            solver_seconds={k: round(v, 3) for k, v in self.solver_secs.items()},
            bounded_standins=self.bounded,
            samples=self.samples or [dict(obligation=o["name"], status=o["status"]) for o in counted[:3]],
            explanation=(
                f"{proved}/{n} obligations generated from the real code objects were discharged; "
                + (f"{len(undec)} undecided (never counted as violations); " if undec else "")
                + (f"{len(knownf)} match committed known findings; " if knownf else "")
                + f"{len(self.bounded)} bounded stand-ins (labelled bounded, not counted as proved)."
            ),
            notes=self.notes,
            exhaustive=False,
        )
        # generic fallback keys (measured)
        cov["evaluations"] = n + sum(b["evaluations"] for b in self.bounded)
        cov["distinct_nontrivial"] = len({o["name"] for o in counted}) + sum((b.get("distinct") or 0) for b in self.bounded)
        cov["rule"] = "one evaluation per generated obligation (distinct by obligation name) plus one per bounded stand-in scenario (distinct by generated input)"
        ev = dict(
            property_id=self.pid,
            tier=self.tier,
            seed=self.seed,
            level=level,
            coverage=cov,
            assumptions=[f"{a}: {CATALOGUE.get(a, '')}" for a in trusted],
            wall_s=round(wall, 2),
            violations=len(self.violations),
        )
        os.makedirs(EVID, exist_ok=True)
        with open(os.path.join(EVID, f"{self.pid}.json"), "w") as f:
            json.dump(ev, f, indent=1, default=_jsonable)
        self.log(f"obligations={n} discharged={proved} undecided={len(undec)} known={len(knownf)} refuted={len(refuted)} bounded={len(self.bounded)} wall={wall:.1f}s level={level}")
        for c in self.checker_failures:
            print(f"CHECKER-FAILURE: {c}", file=sys.stderr)
        if self.violations:
            # a violation stands on its own evidence (a refuted obligation with its replay); a part of the checker that
            # failed next to it (often because the changed code crashes or hangs a native job) does not retract it
            for name, path, no_input in self.violations:
                print(f"VIOLATION property={self.pid} replay={path}" + (" no-failing-input-found" if no_input else ""))
            return 1
        if self.checker_failures:
            return 3
        return 0


def _short(goal, n=300):
    return E.brief(goal, n)


def _model_str(m):
    if m is None:
        return ""
    try:
        return "; ".join(f"{d.name()}={m[d]}" for d in m.decls()[:60])[:3000]
    except Exception:
        return str(m)[:3000]


def _jsonable(o):
    import numpy as np

    if isinstance(o, np.ndarray):
        return o.tolist()
    if isinstance(o, (np.floating,)):
        return float(o)
    if isinstance(o, (np.integer,)):
        return int(o)
    if isinstance(o, (np.bool_,)):
        return bool(o)
    if isinstance(o, complex):
        return [o.real, o.imag]
    return str(o)


def _child_init():
    from . import native

    native._W.clear()


def _child_call(job):
    pid, tier, seed, func, item = job
    from . import native

    r = Run(pid, tier, seed)
    r.deadline = r.t0 + r.section_budget
    E.DEADLINE[0] = r.deadline + 20  # hard stop for solver calls made outside Run.prove
    try:
        func(r, item)
    except E.UNSUPPORTED_EXC + (TypeError, AttributeError, IndexError, KeyError, ValueError, ArithmeticError) as e:
        # the (possibly changed) code does something the symbolic harness cannot interpret: undecided, never an alarm and
        # not a failure of the checker either (on the unchanged tree an undecided section shows up as a level mismatch)
        tb = traceback.format_exc().splitlines()
        where = next((ln.strip() for ln in reversed(tb) if ln.strip().startswith("File")), "")
        r.undecided(f"section {item!r}", "pv.harness", f"the harness could not interpret the code: {type(e).__name__}: {str(e)[:160]} @ {where[:160]}")
    except Exception:
        r.checker_failures.append(f"exception in parallel section {item!r}: " + traceback.format_exc()[-1500:])
    finally:
        native.close_all()
    return r.export()
