"""Independent tensor-form transcription of the published D-Rex rates (oracle for C02).

Sources: Kaminski & Ribe 2001 (eqs 5, 7-9), Kaminski, Ribe & Browaeys 2004 (strain energy,
grain-boundary migration), with the corrections of Fraters & Billen 2021 (eqs 3, 4, 14, 16, S1);
CRSS table of Kaminski et al. 2004 / Karato et al. 2008 in the slip-system order of
pydrex.minerals.OLIVINE_SLIP_SYSTEMS: (010)[100], (001)[100], (010)[001], (100)[001].

Generic over the number type: works on floats and on symbolic proxies (only + - * / abs ** exp).
The order of slip-system activities is a parameter (`order`), so that the symbolic reading does
not have to sort; for floats it is computed when omitted.

Documented choices:
  * the strain energy sums rho_s*exp(-lambda*rho_s^2), rho_s = tau_s^(p-n) |beta_s gamma|^(p/n), over the
    slip systems with finite CRSS, for olivine and enstatite alike (Fraters 2021 eq. 16 "for each
    slip system"); an infinite CRSS or a zero relative slip rate contributes 0;
  * a grain on which only an inactive (infinite-CRSS) system resolves shear has zero slip rates:
    it rotates with the vorticity and stores no energy (C03 covers it);
  * frictional yielding damps both rates by the documented factor 0.3 (the Python literal).
"""
import math

import numpy as np

INF = float("inf")
CRSS = {
    (0, 0): (1, 2, 3, INF),  # olivine A
    (0, 1): (3, 2, 1, INF),  # olivine B
    (0, 2): (3, 2, INF, 1),  # olivine C
    (0, 3): (1, 1, 3, INF),  # olivine D
    (0, 4): (3, 1, 2, INF),  # olivine E
    (1, 5): (INF, INF, INF, 1),  # enstatite AB
}
# (slip-direction row, plane-normal row) of the orientation matrix for the four systems
SLIP = ((0, 1), (0, 2), (2, 1), (2, 0))
YIELD_DAMP = 0.3


def _exp(x):
    return np.exp(x)


def _outer(u, v):
    M = np.empty((3, 3), dtype=object)
    for i in range(3):
        for j in range(3):
            M[i, j] = u[i] * v[j]
    return M


def invariants(A, D):
    out = []
    for (l, nrm) in SLIP:
        acc = 0
        for i in range(3):
            for j in range(3):
                acc = acc + D[i, j] * A[l, i] * A[nrm, j]
        out.append(acc)
    return out


def activity_order(tau, I):
    q = [0.0 if tau[s] == INF else abs(I[s] / tau[s]) for s in range(4)]
    return tuple(sorted(range(4), key=lambda s: q[s]))


def slip_rates_olivine(tau, I, order, n):
    i_inac, i_min, i_int, i_max = order
    beta = [0, 0, 0, 0]
    beta[i_max] = 1
    for s in (i_min, i_int):
        if tau[s] == INF:
            beta[s] = 0
        else:
            r = (I[s] / tau[s]) / (I[i_max] / tau[i_max])
            beta[s] = r * abs(r) ** (n - 1)
    return beta


def grain(phase, fabric, A, D, L, p, n, lam, order=None, enstatite_active=None, none_active=None):
    """(dA/dt, strain energy) of one grain.  A: 3x3 orientation, D: strain rate, L: velocity gradient."""
    tau = CRSS[(int(phase), int(fabric))]
    I = invariants(A, D)
    if int(phase) == 0:
        if order is None:
            order = activity_order(tau, I)
        if none_active is None:  # no system with finite CRSS resolves any shear
            none_active = all(tau[s] == INF or I[s] == 0 for s in range(4))
        beta = [0, 0, 0, 0] if none_active else slip_rates_olivine(tau, I, order, n)
    else:
        if enstatite_active is None:
            enstatite_active = abs(I[3]) > 1e-15
        beta = [0, 0, 0, 1 if enstatite_active else 0]
    G = None
    for s, (l, nrm) in enumerate(SLIP):
        term = _outer(A[l], A[nrm])
        contrib = np.empty((3, 3), dtype=object)
        for i in range(3):
            for j in range(3):
                contrib[i, j] = 2 * beta[s] * term[i, j]
        G = contrib if G is None else G + contrib
    return G, beta, tau


def softest_rate(G, L):
    """Least-squares fit of the softest slip rate to the velocity gradient (Fraters 2021 eq. 4):
    returns (numerator, denominator) of gamma = (Gs:Ls)/(Gs:Gs) with Gs, Ls the symmetric parts
    (the antisymmetric parts cancel out of eq. 4 identically)."""
    num = 0
    den = 0
    for i in range(3):
        for j in range(3):
            gs = (G[i, j] + G[j, i]) / 2
            ls = (L[i, j] + L[j, i]) / 2
            num = num + 2 * gs * ls
            den = den + 2 * gs * gs
    return num, den


def spin_rotation(A, L, G, gamma):
    """dA/dt = A . Omega^T with Omega = skew(L - gamma G)  (Kaminski & Ribe 2001 eq. 8-9)."""
    out = np.empty((3, 3), dtype=object)
    W = np.empty((3, 3), dtype=object)
    for i in range(3):
        for j in range(3):
            W[i, j] = ((L[i, j] - gamma * G[i, j]) - (L[j, i] - gamma * G[j, i])) / 2
    for i in range(3):
        for j in range(3):
            acc = 0
            for k in range(3):
                acc = acc + A[i, k] * W[j, k]
            out[i, j] = acc
    return out


def strain_energy(tau, beta, gamma, p, n, lam):
    E = 0
    for s in range(4):
        if tau[s] == INF:
            continue
        rho = (1 / tau[s]) ** (n - p) * abs(beta[s] * gamma) ** (p / n)
        E = E + rho * _exp(-lam * rho * rho)
    return E


def grain_rates(phase, fabric, A, D, L, p, n, lam):
    """Float reading: complete per-grain result (dA, E)."""
    A = np.asarray(A, dtype=float)
    D = np.asarray(D, dtype=float)
    L = np.asarray(L, dtype=float)
    I = invariants(A, D)
    if all(v == 0 for v in I):
        return np.zeros((3, 3)), 0.0
    G, beta, tau = grain(phase, fabric, A, D, L, p, n, lam)
    G = G.astype(float)
    num, den = softest_rate(G, L)
    gamma = 0.0 if -1e-15 < den < 1e-15 else num / den
    dA = spin_rotation(A, L, G, gamma).astype(float)
    E = float(strain_energy(tau, beta, gamma, p, n, lam))
    return dA, E


def rates(regime, phase, fabric, As, f, D, L, p, n, lam, M, phi):
    """Float reading of the whole solver for the two dislocation-type regimes (4 and 6)."""
    damp = 1.0 if int(regime) == 4 else YIELD_DAMP
    out = [grain_rates(phase, fabric, A, D, L, p, n, lam) for A in As]
    dA = np.array([o[0] for o in out]) * damp
    E = np.array([o[1] for o in out])
    f = np.asarray(f, dtype=float)
    return dA, phi * M * f * (damp * (np.sum(f * E) - E))
