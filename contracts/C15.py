"""C15 — volume-weighted resampling draws grains in proportion to their volume.

Proved on the real resample_orientations (a) for M = 1, 2, 3 grains with numpy executing argsort / cumsum on symbolic volumes
(every admissible order and search result explored), and (b) for EVERY grain count M >= 1 and sample count (`lifted`): the
arrays are index -> term functions, numpy's argsort (a permutation that sorts ascending), cumsum (prefix sums; the laws are
lean/PvSigma.lean prefix_zero/step/total/mono and perm), searchsorted (a[c-1] < u <= a[c] on an ascending array) and the
generator (A-RNG) are contracts instantiated at the generic sample: every output pair is an input grain of the same snapshot
with its own volume, chosen iff cum[k-1] < u <= cum[k] (an interval whose length is that grain's volume, so that zero-volume
grains are never drawn for u in the open interval); index ranges and the ascending precondition of searchsorted are
obligations too.  Shape rejection is enumerated exhaustively over shape classes.  Convergence of sample statistics and seed
reproducibility: bounded stand-in.  Level claimed: other.
"""
import itertools

import numpy as np
import z3

from pv import engine as E
from pv import native
from pv import sym as S
from pv.sym import Sym, sym, symarr
from pv.util import real_module

FN = "pydrex.stats.resample_orientations"


def run(run):
    run.assume("S-REAL", "S-PY", "S-NUMPY", "A-RNG")
    run.level_override = "other"
    run.fork_map(_section, [("sym", 1), ("sym", 2), ("sym", 3), ("shapes",), ("lifted", False), ("lifted", True)])
    bounded(run)


def _section(run, item):
    try:
        if item[0] == "sym":
            symbolic(run, item[1])
        elif item[0] == "lifted":
            lifted(run, item[1])
        else:
            shapes(run)
    except E.UNSUPPORTED_EXC as e:
        run.undecided(str(item), FN, f"unsupported construct: {e}")
    except (AttributeError, TypeError, KeyError, IndexError) as e:
        import traceback

        run.undecided(str(item), FN, f"not interpretable: {type(e).__name__}: {e} @ {traceback.format_exc().splitlines()[-3].strip()[:100]}")
    finally:
        E.Ctx.cur = None


def symbolic(run, M, ns=2):
    ST = real_module("pydrex.stats")
    draws = []

    class RNG:
        def random(s, k):
            u = symarr(f"u{len(draws)}", (k,))
            draws.append(u)
            c = S.ctx()
            for v in u:
                c.assume(z3.And(S.zz(v) > 0, S.zz(v) < 1))  # A-RNG: open interval
            return u

    seeds = []

    class RandomStub:
        @staticmethod
        def default_rng(seed=None):
            seeds.append(seed)
            return RNG()

    searches = []

    class Shim(S.NPShim):
        random = RandomStub

        def searchsorted(self, a, v, side="left", sorter=None):
            # contract: for each v_j the index c with a[c-1] < v_j <= a[c] (side='left'); every admissible c is explored
            if side != "left" or sorter is not None:
                raise E.Unsupported("searchsorted variant")
            a = list(np.asarray(a, dtype=object).flat)
            out = []
            c = S.ctx()
            for vj in np.asarray(v, dtype=object).flat:
                chosen = None
                for k in range(len(a) + 1):
                    conds = []
                    if k > 0:
                        conds.append(S.zz(a[k - 1]) < S.zz(vj))
                    if k < len(a):
                        conds.append(S.zz(vj) <= S.zz(a[k]))
                    cond = z3.And(*conds) if conds else z3.BoolVal(True)
                    if c.choose(cond):
                        chosen = k
                        break
                if chosen is None:
                    raise S.Infeasible()
                out.append(chosen)
            searches.append((a, list(np.asarray(v, dtype=object).flat), out))
            return np.array(out)

        def asarray(self, x, *a, **k):
            return x if isinstance(x, np.ndarray) else np.asarray(x)

    g = dict(ST.__dict__)
    g.update(np=Shim())
    f = E.rebind_function(ST.resample_orientations, g)
    seed_obj = object()
    holder = {}

    def body():
        draws.clear(); searches.clear(); seeds.clear()
        O = symarr("O", (1, M, 3, 3))
        fr = symarr("f", (1, M))
        holder["O"], holder["f"] = O, fr
        return f(O, fr, ns if M != 2 else None, seed_obj), list(searches), list(draws), list(seeds)

    fz = [z3.Real(f"f_0_{k}") for k in range(M)]
    hyps = [v >= 0 for v in fz] + [sum(fz, z3.RealVal(0)) == 1]
    ex = E.explore(body, hyps=hyps, max_paths=400)
    run.paths += len(ex.paths)
    tag = f"resample[M={M}]"
    if not ex.complete or not ex.paths:
        run.undecided(tag, FN, "exploration incomplete: " + "; ".join(ex.unsupported[:2]))
        return
    nsamp = ns if M != 2 else M
    allok = True
    n_obl = 0
    for pi, p in enumerate(ex.paths):
        if p.exc is not None:
            run.prove(f"{tag}/path{pi}/no exception on well-formed input", FN, list(ex.ctx.hyps) + list(p.pc), z3.BoolVal(False), structural=True, detail=f"{type(p.exc).__name__}: {p.exc}")
            continue
        (oo, of), srch, drw, sds = p.value
        H = list(ex.ctx.hyps) + list(p.pc)
        O, fr = holder["O"], holder["f"]
        ok_shape = np.shape(oo) == (1, nsamp, 3, 3) and np.shape(of) == (1, nsamp)
        ok_seed = len(sds) == 1 and sds[0] is seed_obj and len(drw) == 1 and len(drw[0]) == nsamp
        if not (ok_shape and ok_seed):
            allok = False
            continue
        # each output pair is one input grain with its own volume: exists k with out == (O[k], f[k]) -- decided per path
        for j in range(nsamp):
            goals = []
            for k in range(M):
                goals.append(z3.And(S.zz(of[0, j]) == S.zz(fr[0, k]), *[S.zz(a) == S.zz(b) for a, b in zip(np.asarray(oo[0, j], dtype=object).flat, np.asarray(O[0, k], dtype=object).flat)]))
            run.prove(f"{tag}/path{pi}/sample {j} is an input grain of the same snapshot paired with its own volume", FN, H, z3.Or(*goals), structural=True)
            run.prove(f"{tag}/path{pi}/sample {j} has positive volume (zero-volume grains are never drawn)", FN, H, S.zz(of[0, j]) > 0, structural=True)
            n_obl += 2
        # the searched array is the ascending cumulative sum with last entry 1, and the chosen index is in range
        a, v, out = srch[0]
        okc = all(0 <= c_ <= M - 1 for c_ in out)
        run.prove(f"{tag}/path{pi}/draw index within 0..M-1 and cumulative volumes ascending with last entry 1", FN, H,
                  z3.And(z3.BoolVal(okc), S.zz(a[-1]) == 1, *[S.zz(a[i]) <= S.zz(a[i + 1]) for i in range(M - 1)]), structural=True)
        # selection interval of the drawn grain has length = its volume: cum[c] - cum[c-1] == volume (c < M-1), or 1 - cum[M-2] == volume (sum 1)
        for j, c_ in enumerate(out):
            if 0 <= c_ <= M - 1:
                lo = S.zz(a[c_ - 1]) if c_ > 0 else z3.RealVal(0)
                run.prove(f"{tag}/path{pi}/sample {j}: drawn iff u in (cum[k-1], cum[k]], an interval of length equal to the grain's volume", FN, H, S.zz(a[c_]) - lo == S.zz(of[0, j]), structural=True)
    run.exact(f"{tag}/output shapes (N, n_samples, 3, 3), (N, n_samples), n_samples defaults to M; one generator seeded with the given seed, one draw of n_samples uniforms per snapshot", FN, allok, f"{len(ex.paths)} paths")


# ----------------------------------------------------------------------------- symbolic grain count
class _LV:
    """A 1-D (or Mx3x3) array of symbolic length: index -> z3 term(s)."""

    def __init__(s, n, fn, tail=(), kind="real", role=""):
        s.n, s.fn, s.tail, s.kind, s.role = n, fn, tuple(tail), kind, role
        s.gathers = []

    @property
    def shape(s):
        return (S.SymInt(s.n),) + s.tail

    def __getitem__(s, key):
        if isinstance(key, _LV) and key.kind == "int":
            out = _LV(key.n, (lambda k, f=s.fn, g=key.fn: f(g(k))), s.tail, s.kind, role=f"{s.role}[{key.role}]")
            _LIFT["gathers"].append((s, key))
            return out
        raise E.Unsupported(f"indexing a lifted array with {type(key).__name__}")

    def cumsum(s, *a, **k):
        if a or k or s.kind != "real" or s.tail:
            raise E.Unsupported("cumsum variant")
        _LIFT["cumsum_of"].append(s)
        return _LV(s.n, (lambda k_: _LIFT["CUM"](k_)), (), "real", role="cumsum")

    def __setitem__(s, key, val):
        if isinstance(key, int) and key == -1 and isinstance(val, (int, float)):
            old, n = s.fn, s.n
            s.fn = lambda k_, old=old, n=n, val=val: z3.If(k_ == n - 1, z3.RealVal(val), old(k_))
            _LIFT["overwrites"].append((s, key, val))
            return
        raise E.Unsupported("element assignment on a lifted array")


class _Stack:
    """N = 1 snapshots of a lifted array (shape (1, M, ...))."""

    def __init__(s, lv):
        s.lv = lv

    @property
    def shape(s):
        return (1,) + s.lv.shape

    def __len__(s):
        return 1

    def __iter__(s):
        return iter([s.lv])


class _OutBuf:
    def __init__(s, shape):
        s.shape, s.rows = tuple(shape), {}

    def __setitem__(s, key, val):
        if isinstance(key, tuple) and len(key) == 2 and key[1] is Ellipsis and isinstance(key[0], int):
            s.rows[key[0]] = val
            return
        raise E.Unsupported("assignment pattern on the output buffer")


_LIFT = {}


def lifted(run, given_ns):
    """The real resample_orientations for a symbolic number of grains M (and of samples), N = 1 snapshot, with numpy's argsort,
    cumsum, searchsorted and the generator under contract (instantiated at the generic sample).  Decides for every M >= 1:
    index ranges, "each sample is an input grain with its own volume", "never a zero-volume grain", "drawn iff u falls into an
    interval of length equal to the grain's volume", and the ascending-array precondition of searchsorted."""
    ST = real_module("pydrex.stats")
    I, Rl = z3.IntSort(), z3.RealSort()
    M, NS, j, kk = z3.Int("M"), z3.Int("NS"), z3.Int("j"), z3.Int("k")
    FR, ORI = z3.Function("frac", I, Rl), z3.Function("orient", I, I, I, Rl)
    SIG, CUM, U, CNT = z3.Function("sigma", I, I), z3.Function("cum", I, Rl), z3.Function("u", I, Rl), z3.Function("count_less", I, I)
    _LIFT.clear()
    _LIFT.update(CUM=CUM, gathers=[], cumsum_of=[], overwrites=[], searches=[], seeds=[], draws=[], argsorts=[])
    frac = _LV(M, lambda g: FR(g), (), "real", role="frac")
    orient = _LV(M, lambda g: [[ORI(g, a, b) for b in range(3)] for a in range(3)], (3, 3), "mat", role="orient")
    seed_obj = object()

    class RNG:
        def random(s_, k):
            n = k.z if isinstance(k, S.SymInt) else z3.IntVal(int(k))
            _LIFT["draws"].append(n)
            return _LV(n, lambda q: U(q), (), "real", role="u")

    class RandomStub:
        @staticmethod
        def default_rng(seed=None):
            _LIFT["seeds"].append(seed)
            return RNG()

    class Shim:
        random = RandomStub

        @staticmethod
        def asarray(x, *a, **k):
            return x

        @staticmethod
        def empty(shape, *a, **k):
            return _OutBuf(shape)

        @staticmethod
        def argsort(a, *args, **k):
            if not isinstance(a, _LV) or args or k:
                raise E.Unsupported("argsort variant")
            _LIFT["argsorts"].append(a)
            return _LV(a.n, lambda q: SIG(q), (), "int", role="sigma")

        @staticmethod
        def searchsorted(a, v, side="left", sorter=None):
            if side not in ("left", "right") or sorter is not None or not isinstance(a, _LV) or not isinstance(v, _LV):
                raise E.Unsupported("searchsorted variant")
            _LIFT["searches"].append((a, v))
            _LIFT["side"] = side
            return _LV(v.n, lambda q: CNT(q), (), "int", role="count_less")

        def __getattr__(s_, nm):
            raise E.Unsupported(f"np.{nm} on lifted data")

    g = dict(ST.__dict__)
    g.update(np=Shim())
    f = E.rebind_function(ST.resample_orientations, g)
    c = E.Ctx([M >= 1, NS >= 1])
    E.Ctx.cur = c
    c.reset_path([])
    tag = f"resample[all M, n_samples {'given' if given_ns else 'default'}]"
    out_o, out_f = f(_Stack(orient), _Stack(frac), S.SymInt(NS) if given_ns else None, seed_obj)
    n_s = NS if given_ns else M
    L = _LIFT
    ok_struct = (isinstance(out_o, _OutBuf) and isinstance(out_f, _OutBuf) and set(out_o.rows) == {0} and set(out_f.rows) == {0} and len(L["seeds"]) == 1 and L["seeds"][0] is seed_obj
                 and len(L["draws"]) == 1 and len(L["searches"]) == 1 and len(L["argsorts"]) == 1 and len(L["cumsum_of"]) == 1 and isinstance(out_o.rows[0], _LV) and isinstance(out_f.rows[0], _LV))
    if not ok_struct:
        run.undecided(tag, FN, "the call structure differs from the contract's (one generator from the given seed, one draw, one argsort, one cumulative sum, one search per snapshot): decided for M <= 3 and by the stand-in")
        return
    shp_ok = len(out_o.shape) == 4 and len(out_f.shape) == 2 and out_o.shape[0] == 1 and out_f.shape[0] == 1 and tuple(out_o.shape[2:]) == (3, 3)
    nsz = [sh.z if isinstance(sh, S.SymInt) else (sh if z3.is_expr(sh) else z3.IntVal(int(sh))) for sh in (out_o.shape[1], out_f.shape[1], out_o.rows[0].n, out_f.rows[0].n, L["draws"][0])]
    a_lv, v_lv = L["searches"][0]
    srt = L["argsorts"][0]
    cs = L["cumsum_of"][0]
    # --- contracts of the numpy callees, instantiated where the obligations look
    base = list(c.hyps) + list(c.pc) + [j >= 0, j < n_s]
    cj = CNT(j)
    inst = [cj, cj - 1, kk, kk + 1, z3.IntVal(0), M - 1]
    sort_arg = srt.fn  # what was sorted
    H = list(base)
    for q in inst:
        inr = z3.And(q >= 0, q < M)
        H.append(z3.Implies(inr, z3.And(SIG(q) >= 0, SIG(q) < M)))  # argsort: a permutation of range(M)
        H.append(z3.Implies(z3.And(q >= 0, q + 1 < M), sort_arg(SIG(q)) <= sort_arg(SIG(q + 1))))  # ... that sorts ascending
        H.append(z3.Implies(z3.And(q >= 1, q < M), CUM(q) == CUM(q - 1) + cs.fn(q)))  # cumsum: prefix sums
        H.append(z3.Implies(inr, FR(SIG(q)) >= 0))  # input: volumes are non-negative
    H.append(CUM(0) == cs.fn(0))
    TOT = z3.Real("SUM_frac")
    H.append(TOT == 1)  # input: volumes sum to one
    H.append(CUM(M - 1) == TOT)  # cumsum total = sum over the permuted array = sum of the array (PvSigma.prefix_total, perm)
    H.append(z3.And(U(j) > 0, U(j) < 1))  # A-RNG: open interval
    # searchsorted (side='left') on an ascending array
    if L.get("side", "left") == "left":
        H += [cj >= 0, cj <= a_lv.n, z3.Implies(cj > 0, a_lv.fn(cj - 1) < v_lv.fn(j)), z3.Implies(cj < a_lv.n, v_lv.fn(j) <= a_lv.fn(cj))]
    else:
        H += [cj >= 0, cj <= a_lv.n, z3.Implies(cj > 0, a_lv.fn(cj - 1) <= v_lv.fn(j)), z3.Implies(cj < a_lv.n, v_lv.fn(j) < a_lv.fn(cj))]
    P = lambda name, goal, kind="post": run.prove(f"{tag}/{name}", FN, H, goal, structural=True, kind=kind)
    run.exact(f"{tag}/shapes (1, n_samples, 3, 3) and (1, n_samples); one generator from the given seed; one draw of n_samples uniforms", FN, bool(shp_ok), f"{out_o.shape} {out_f.shape}")
    P("n_samples of every buffer, row and draw is the requested number (M by default)", z3.And(*[x == n_s for x in nsz]))
    P("what is sorted is the snapshot's own volumes; the cumulative sum runs over the sorted volumes; the search is of the draws in it",
      z3.And(sort_arg(kk) == FR(kk), cs.fn(kk) == FR(SIG(kk)), v_lv.fn(j) == U(j), a_lv.n == M, srt.n == M))
    P("precondition of searchsorted: the searched array is ascending (generic k)", z3.Implies(z3.And(kk >= 0, kk + 1 < M), a_lv.fn(kk) <= a_lv.fn(kk + 1)), kind="safety")
    P("the drawn index is within 0..M-1", z3.And(cj >= 0, cj <= M - 1), kind="safety")
    for (arr, key) in L["gathers"]:
        at = j if key.role == "count_less" else kk  # the generic sample / the generic position
        P(f"index range of {arr.role}[{key.role}] (generic element)", z3.Implies(z3.And(at >= 0, at < key.n), z3.And(key.fn(at) >= 0, key.fn(at) < arr.n)), kind="safety")
    gsel = SIG(cj)
    of_j = out_f.rows[0].fn(j)
    oo_j = out_o.rows[0].fn(j)
    P("sample j is an input grain of the same snapshot paired with its own volume (witness: grain sigma(count_less(j)))",
      z3.And(gsel >= 0, gsel < M, of_j == FR(gsel), *[oo_j[a][b] == ORI(gsel, a, b) for a in range(3) for b in range(3)]))
    P("sample j has positive volume (zero-volume grains are never drawn)", of_j > 0)
    P("sample j is drawn iff u falls into (cum[k-1], cum[k]], an interval whose length is the grain's volume", a_lv.fn(cj) - z3.If(cj > 0, a_lv.fn(cj - 1), z3.RealVal(0)) == of_j)
    run.canary(f"{tag}/canary", FN, H, of_j > 1)
    E.Ctx.cur = None


def shapes(run):
    ST = real_module("pydrex.stats")
    f = ST.resample_orientations
    good = [((2, 3, 3, 3), (2, 3)), ((1, 1, 3, 3), (1, 1)), ((4, 7, 3, 3), (4, 7))]
    bad = [((2, 3, 3, 3), (3, 3)), ((2, 3, 3, 3), (2, 4)), ((2, 3, 3), (2, 3)), ((2, 3, 3, 3), (2, 3, 1)), ((2, 3, 3, 3, 1), (2, 3)), ((2, 3, 1, 3), (2, 3)), ((2, 3, 3, 1), (2, 3)),
           ((2, 3, 2, 2), (2, 3)), ((2, 3, 4, 3), (2, 3)), ((2, 3, 3, 4), (2, 3)), ((2, 3, 4, 4), (2, 3)), ((2, 3, 1, 1), (2, 3)), ((6, 3, 3), (6,)), ((2, 3, 3, 3), (6,)), ((3, 3), (1,))]
    okg, okb, det = True, True, []
    for so, sf in good:
        try:
            o, fr = f(np.ones(so), np.full(sf, 1.0 / sf[1]), seed=1)
            okg = okg and o.shape == so and fr.shape == sf
        except Exception as e:
            okg = False; det.append(f"{so},{sf}: {type(e).__name__}")
    for so, sf in bad:
        try:
            f(np.ones(so), np.ones(sf) / max(1, sf[-1]), seed=1)
            okb = False; det.append(f"{so},{sf}: accepted")
        except ValueError:
            pass
        except Exception as e:
            okb = False; det.append(f"{so},{sf}: {type(e).__name__}")
    run.exact(f"well-formed shapes are accepted [{len(good)} classes]", FN, okg, "; ".join(det))
    run.exact(f"every malformed shape combination is rejected with ValueError [{len(bad)} shape classes, exhaustive over the rank / leading-dimension / trailing-dimension faults]", FN, okb, "; ".join(det) or "all rejected",
              info=None if okb else dict(checker="contracts.C15:nat_shapes", inputs={}))


def nat_shapes():
    import pydrex

    try:
        pydrex.resample_orientations(np.ones((2, 3, 1, 3)), np.full((2, 3), 1 / 3), seed=1)
        return dict(ok=False, what="orientations of shape (2, 3, 1, 3) accepted")
    except ValueError:
        return dict(ok=True)


def bounded(run):
    cnt = 64 if run.tier == "quick" else 800 * run.tmul
    jobs = [dict(seed=run.seed * 43 + k, count=cnt // 8) for k in range(8)]
    res, errs = native.pmap("contracts.C15", "nat_sweep", jobs)
    run.worker_errors(errs, len(jobs))
    ev = sum(r["evaluations"] for r in res if r and "_error" not in r)
    fails = [f for r in res if r and "_error" not in r for f in r["failures"]]
    run.bounded_result("real resample_orientations: membership and pairing, zero volumes never drawn, empirical frequencies vs volumes (5 sigma), shapes and default n_samples, seed reproducibility (seed 0 included), many grains (> 65536)",
                       FN, f"{ev} generated stacks, n_samples up to 1e6", ev, fails, ev)


def _interval_oracle(rng, M):
    """Deterministic check of the selection rule with the generator under contract (A-RNG) replaced by chosen draws: a draw u at
    the midpoint of (cum[k-1], cum[k]] of the ascending cumulative volumes must select the k-th smallest grain, for the
    smallest, middle and the largest grains, and u = 1 - 1e-12 must select the largest grain."""
    import pydrex

    real_rng = np.random.default_rng
    f = rng.random(M) + 0.5
    f /= f.sum()
    O = rng.normal(size=(1, M, 3, 3))
    O[0, :, 0, 0] = np.arange(M)
    order = np.argsort(f, kind="stable")
    fa = f[order]
    cum = np.concatenate([[0.0], np.cumsum(fa)])
    cum[-1] = 1.0
    ks = sorted({0, min(1, M - 1), M // 2, max(0, M - 3), max(0, M - 2), M - 1})
    us = [(cum[k] + cum[k + 1]) / 2 for k in ks] + [1 - 1e-12]
    want = ks + [M - 1]

    class Stub:
        def random(self, n, *a, **k):
            out = np.full(n, us[-1])
            out[: len(us)] = us
            return out

    msgs = []
    try:
        np.random.default_rng = lambda *a, **k: Stub()
        o1, f1 = pydrex.resample_orientations(O, f[None, :], len(us) + 3, seed=1)
    finally:
        np.random.default_rng = real_rng
    got = np.rint(o1[0, : len(us), 0, 0]).astype(int)
    # ties in volume make the sorted position ambiguous: compare volumes, and identities only where the volume is unique
    for j, (k, g_) in enumerate(zip(want, got)):
        if not (0 <= g_ < M) or f1[0, j] != f[g_]:
            msgs.append(f"M={M}: sample {j} is not paired with its own volume")
        elif f[g_] != fa[k]:
            msgs.append(f"M={M}: a draw in the interval of the {k}-th smallest grain (volume {fa[k]:.3e}) selected a grain of volume {f[g_]:.3e}")
    return msgs[:2]


def nat_sweep(seed, count):
    import pydrex

    rng = np.random.default_rng(seed)
    fails, ev = [], 0
    for it in range(count):
        ev += 1
        msgs = []
        try:
            if it % 8 == 3:
                msgs.extend(_interval_oracle(rng, int(rng.choice([1, 2, 7, 300, 70000, 250000]))))
            N = int(rng.choice([1, 3]))
            M = int(rng.choice([1, 2, 5, 40, 300])) if it % 16 else 70000
            ns = [None, 1, 7, 2000, 200000][it % 5] if M < 70000 else 20000
            if it % 40 == 7:
                ns = 1000000
            f = rng.random((N, M)) ** rng.choice([1, 4])
            kind = it % 4
            if kind == 0 and M > 2:
                f[:, : M // 3] = 0.0
            elif kind == 1 and M > 1:
                f[:] = 1e-6; f[:, rng.integers(M)] = 1.0
            elif kind == 2 and M > 3:
                f[:, 1] = f[:, 2]
            f /= f.sum(axis=1, keepdims=True)
            if N >= 2 and it % 3 == 1:
                # consecutive snapshots whose volumes differ in the tenth digit only (a slowly evolving texture), in another order
                f[1] = f[0] * (1 + 1e-9 * rng.normal(size=M))
                f[1] /= f[1].sum()
                if M > 2:
                    f[1][[0, M - 1]] = f[1][[M - 1, 0]]
            O = rng.normal(size=(N, M, 3, 3))
            O[:, :, 0, 0] = np.arange(M)[None, :]  # identify the grain
            sd = [0, 1, int(rng.integers(1 << 31))][it % 3]
            o1, f1 = pydrex.resample_orientations(O, f, ns, seed=sd)
            o2, f2 = pydrex.resample_orientations(O, f, ns, seed=sd)
            nn = M if ns is None else ns
            if o1.shape != (N, nn, 3, 3) or f1.shape != (N, nn):
                msgs.append(f"shapes {o1.shape} {f1.shape}")
            else:
                if not (np.array_equal(o1, o2) and np.array_equal(f1, f2)):
                    msgs.append(f"not reproducible for seed={sd}")
                idx = np.rint(o1[:, :, 0, 0]).astype(int)
                for i in range(N):
                    if idx[i].min() < 0 or idx[i].max() >= M or not np.array_equal(o1[i], O[i][idx[i]]):
                        msgs.append("a resampled orientation is not an input grain of the same snapshot")
                        break
                    if not np.array_equal(f1[i], f[i][idx[i]]):
                        msgs.append("a resampled volume is not the volume of the drawn grain")
                        break
                    if np.any(f[i][idx[i]] == 0):
                        msgs.append(f"{int(np.sum(f[i][idx[i]] == 0))} zero-volume grains were drawn")
                        break
                    if nn >= 2000 and M <= 300:
                        # exact binomial tails (the normal approximation is wrong for rarely drawn grains): a count whose two-sided
                        # tail probability is below 1e-10 per grain does not come from draws proportional to the volumes
                        from scipy.stats import binom

                        kcnt = np.bincount(idx[i], minlength=M)
                        tail = np.minimum(binom.cdf(kcnt, nn, f[i]), binom.sf(kcnt - 1, nn, f[i]))
                        if np.any(tail < 1e-10):
                            g_ = int(np.argmin(tail))
                            msgs.append(f"empirical draw frequencies are not proportional to the volumes: grain {g_} of volume {f[i][g_]:.3e} drawn {int(kcnt[g_])} times in {nn} (binomial tail {tail[g_]:.1e})")
                            break
                    if M >= 70000:
                        big = np.argsort(f[i])[-100:]
                        got = np.isin(idx[i], big).mean()
                        want = f[i][big].sum()
                        if abs(got - want) > 6 * np.sqrt(want * (1 - want) / nn) + 1e-9:
                            msgs.append("the largest grains are not drawn in proportion to their volume (many-grain stack)")
        except Exception as e:
            msgs.append(f"raised {type(e).__name__}: {e}")
        if msgs:
            fails.append(dict(case=f"{seed}.{it}", checker="contracts.C15:nat_case", inputs=dict(seed=int(seed), it=it, count=count), what="; ".join(msgs[:3])))
    return dict(evaluations=ev, failures=fails[:5])


def nat_case(seed, it, count):
    r = nat_sweep(seed, count)
    hit = [f for f in r["failures"] if f["case"] == f"{seed}.{it}"]
    return dict(ok=not hit, failures=hit)
