"""C04 — frame indifference and crystal-symmetry invariance of rates (and, bounded, of integrated textures).

Relational contracts.  Each helper of pydrex.core is run twice on related inputs (real code objects) and the
outputs are proved related; the per-grain solver and `derivatives` are then run twice with *coupled* contract stubs:
at its k-th call the second run's stub checks that its arguments are related to the first run's arguments as the
callee's relational contract requires, and returns the related result.
"""
import itertools

import numpy as np
import z3

from contracts import corelib as CL
from contracts.bounded_upd import run_bounded
from pv import engine as E
from pv import larr as LA
from pv import native
from pv import sym as S
from pv.facets import prove_entries
from pv.sym import Sym, sym, symarr, symmat_sym
from pv.util import Z
from specs import drex_published as O

MOD = "pydrex.core"
INF = float("inf")
TWOFOLDS = [(1, -1, -1), (-1, 1, -1), (-1, -1, 1)]
SLIP = O.SLIP  # (direction row, normal row)


def sigma_of(s):
    """sign picked up by the invariant / dyad l (x) n of each slip system when A -> diag(s) A"""
    return [s[l] * s[nrm] for (l, nrm) in SLIP]


def run(run):
    run.assume("S-REAL", "S-PY", "S-NUMPY", "S-NUMBA", "A-QUAT", "A-POW", "A-SIGMA", "A-EIG", "A-LSODA")
    items = [("helpers-frame",), ("helpers-twofold",), ("derivatives",)] + [("helpers-twofold-rates", pr) for pr in CL.PAIRS] + [("grain-frame", pr) for pr in CL.PAIRS] + [("grain-twofold", pr) for pr in CL.PAIRS]
    items.append(("rhs-frame",))
    run.fork_map(_section, items)
    bounded(run)


def _section(run, item):
    core = CL.load()
    try:
        if item[0] == "helpers-frame":
            helpers_frame(run, core)
        elif item[0] == "helpers-twofold":
            helpers_twofold(run, core)
        elif item[0] == "helpers-twofold-rates":
            helpers_twofold_rates(run, core, item[1])
        elif item[0] == "derivatives":
            derivatives_rel(run, core)
        elif item[0] == "rhs-frame":
            from contracts import updfacets as UF

            UF.c04_rhs_frame(run)
        elif item[0] == "grain-frame":
            grain_rel(run, core, item[1], "frame")
        elif item[0] == "grain-twofold":
            grain_rel(run, core, item[1], "twofold")
    except E.UNSUPPORTED_EXC as e:
        run.undecided(f"{item}", MOD, f"unsupported construct: {e}")
    except (AttributeError, TypeError, KeyError, IndexError) as e:
        import traceback

        run.undecided(f"{item}", MOD, f"helper missing or not interpretable: {type(e).__name__}: {e} @ {traceback.format_exc().splitlines()[-3].strip()[:100]}")
    finally:
        E.Ctx.cur = None
        LA.Sigma.cur = None
        LA.LoopRule.cur = None


def mm(*ms):
    r = ms[0]
    for m in ms[1:]:
        r = S._matmul(r, m)
    return r


# ----------------------------------------------------------------------------- relational facets of the helpers
def helpers_frame(run, core):
    g = E.rebind_module(core)
    c = E.Ctx([])
    E.Ctx.cur = c
    c.reset_path([])
    Qn, s, hq, q = S.quat_rotation("q")
    H = list(c.hyps) + hq
    A, L, D, G = symarr("A", (3, 3)), symarr("L", (3, 3)), symarr("D", (3, 3)), symarr("G", (3, 3))
    beta, gam = symarr("b", (4,)), sym("gam")
    s2 = s * s
    s4 = s2 * s2
    rp = _rp_helper("frame", q, dict(A=A, L=L, D=D, G=G, b=beta, gam=gam))
    # L1 invariants (Qn = s*Q: A Qn^T = s A Q^T, Qn D Qn^T = s^2 Q D Q^T)
    f = g["_get_slip_invariants"]
    I1, I2 = f(D, A), f(mm(Qn, D, Qn.T), mm(A, Qn.T))
    prove_entries(run, "frame/_get_slip_invariants(Q D Q^T, A Q^T) == _get_slip_invariants(D, A)", f"{MOD}._get_slip_invariants", H, I2, S.ew(lambda v: v * s4, I1), replay=rp)
    # L3 Schmid tensor
    f = g["_get_deformation_rate"]
    G1, G2 = f(0, A, beta), f(0, mm(A, Qn.T), beta)
    prove_entries(run, "frame/_get_deformation_rate(A Q^T, beta) == Q _get_deformation_rate(A, beta) Q^T", f"{MOD}._get_deformation_rate", H, G2, mm(Qn, G1, Qn.T), replay=rp)
    # L4 softest slip rate: numerator and denominator of the least-squares fit are rotation invariants (on the contract
    # expression, which the facet `_get_slip_rate_softest == spec` ties to the code)
    CL.helper_facets(run, core, which=("softest",))
    E.Ctx.cur = c
    n1, d1 = O.softest_rate(G, L)
    n2, d2 = O.softest_rate(mm(Qn, G, Qn.T), mm(Qn, L, Qn.T))
    run.prove("frame/softest slip rate: (Gs:Ls) and (Gs:Gs) invariant under G -> Q G Q^T, L -> Q L Q^T", f"{MOD}._get_slip_rate_softest", H,
              z3.And(S.zz(n2) == S.zz(n1 * s4), S.zz(d2) == S.zz(d1 * s4)), replay=rp)
    # L5 lattice rotation
    f = g["_get_orientation_change"]
    d1_ = f(A, L, G, gam)
    d2_ = f(mm(A, Qn.T), mm(Qn, L, Qn.T), mm(Qn, G, Qn.T), gam)
    # scaled: A Qn^T = s (A Q^T), Qn L Qn^T = s^2 L' => d2 = s^3 (dA Q^T) and d1 Qn^T = s (dA Q^T)
    prove_entries(run, "frame/_get_orientation_change(A Q^T, Q L Q^T, Q G Q^T, gamma) == _get_orientation_change(A, L, G, gamma) Q^T", f"{MOD}._get_orientation_change", H, d2_, S.ew(lambda v: v * s2, mm(d1_, Qn.T)), replay=rp)
    # L2 / L6: slip rates and strain energy take no frame-dependent argument (structural: signatures)
    import inspect

    for nm, allowed in (("_get_slip_rates_olivine", {"invariants", "slip_indices", "crss", "deformation_exponent"}),
                        ("_get_strain_energy", {"crss", "slip_rates", "slip_indices", "slip_rate_softest", "stress_exponent", "deformation_exponent", "nucleation_efficiency"})):
        fn = getattr(core, nm, None)
        if fn is None:
            continue
        params = set(inspect.signature(getattr(fn, "py_func", fn)).parameters)
        run.exact(f"frame/{nm} receives no orientation, strain-rate or velocity-gradient argument", f"{MOD}.{nm}", params <= allowed, f"parameters {sorted(params)}")
    run.canary("frame/canary", MOD, H, S.zz(I2[0]) == S.zz(I1[0]))


def helpers_twofold(run, core):
    g = E.rebind_module(core)
    c = E.Ctx([])
    E.Ctx.cur = c
    c.reset_path([])
    H = list(c.hyps)
    A, L, D, G = symarr("A", (3, 3)), symarr("L", (3, 3)), symarr("D", (3, 3)), symarr("G", (3, 3))
    beta, gam, n = symarr("b", (4,)), sym("gam"), sym("n")
    p, lam = sym("p"), sym("lam")
    PH = CL.param_hyps(p, n, lam)
    for sv in TWOFOLDS:
        Sg = S.to_obj(np.diag(sv))
        sig = sigma_of(sv)
        tag = f"twofold{sv}"
        rp = _rp_helper("twofold", sv, dict(A=A, L=L, D=D, G=G, b=beta, gam=gam))
        SA = mm(Sg, A)
        f = g["_get_slip_invariants"]
        I1, I2 = f(D, A), f(D, SA)
        prove_entries(run, f"{tag}/_get_slip_invariants(D, S A) == sigma * _get_slip_invariants(D, A)", f"{MOD}._get_slip_invariants", H, I2, S.SymArray(np.array([sig[k] * I1[k] for k in range(4)], dtype=object)), replay=rp)
        f = g["_get_deformation_rate"]
        G1 = f(0, A, beta)
        G2 = f(0, SA, S.SymArray(np.array([sig[k] * beta[k] for k in range(4)], dtype=object)))
        prove_entries(run, f"{tag}/_get_deformation_rate(S A, sigma*beta) == _get_deformation_rate(A, beta)", f"{MOD}._get_deformation_rate", H, G2, G1, replay=rp)
        f = g["_get_orientation_change"]
        for kap in (1, -1):
            d1_ = f(A, L, G, gam)
            d2_ = f(SA, L, S.ew(lambda v: v * kap, G), gam * kap)
            prove_entries(run, f"{tag}/_get_orientation_change(S A, L, {kap:+d}G, {kap:+d}gamma) == S _get_orientation_change(A, L, G, gamma)", f"{MOD}._get_orientation_change", H, d2_, mm(Sg, d1_), replay=rp)
    # softest slip rate is odd in G (contract expression)
    n1, d1 = O.softest_rate(G, L)
    n2, d2 = O.softest_rate(S.ew(lambda v: -v, G), L)
    run.prove("twofold/softest slip rate: (Gs:Ls) odd and (Gs:Gs) even in G", f"{MOD}._get_slip_rate_softest", H, z3.And(S.zz(n2) == -S.zz(n1), S.zz(d2) == S.zz(d1)), structural=True)
    E.Ctx.cur = None


def helpers_twofold_rates(run, core, pair):
    """slip rates of olivine: beta'_k = sigma_k sigma_max beta_k; strain energy even in every beta_k and in gamma"""
    g = E.rebind_module(core)
    beta, gam, n = symarr("b", (4,)), sym("gam"), sym("n")
    p, lam = sym("p"), sym("lam")
    PH = CL.param_hyps(p, n, lam)
    fr = g["_get_slip_rates_olivine"]
    fe = g["_get_strain_energy"]
    for pair in [pair]:
        crss = O.CRSS[pair]
        carr = np.array(crss, dtype=float)
        for idx in CL.PERMS:
            if pair[0] == 1 and idx[3] != 3:
                continue
            iarr = np.array(idx)
            for sv in TWOFOLDS:
                sig = sigma_of(sv)
                tag = f"twofold{sv}/{CL.PAIR_NAMES[pair]}/order{''.join(map(str, idx))}"
                if pair[0] == 0 and crss[idx[3]] != INF:
                    cc = E.Ctx(PH + [z3.Real(f"I_{idx[3]}") != 0])
                    E.Ctx.cur = cc
                    cc.reset_path([])
                    I = symarr("I", (4,))
                    b1 = fr(I, iarr, carr, n)
                    b2 = fr(S.SymArray(np.array([sig[k] * I[k] for k in range(4)], dtype=object)), iarr, carr, n)
                    want = [b1[k] * (sig[k] * sig[idx[3]]) if k != idx[3] else b1[k] for k in range(4)]
                    prove_entries(run, f"{tag}/_get_slip_rates_olivine(sigma*I) == sigma_k sigma_max * _get_slip_rates_olivine(I)", f"{MOD}._get_slip_rates_olivine",
                                  list(cc.hyps) + list(cc.pc), b2, S.SymArray(np.array(want, dtype=object)), replay=_rp_rates(crss, idx, sv, I, n))
                cc = E.Ctx(PH)
                E.Ctx.cur = cc
                cc.reset_path([])
                e1 = fe(carr, beta, iarr, gam, p, n, lam)
                kap = sig[idx[3]]
                bsig = S.SymArray(np.array([beta[k] * (sig[k] * sig[idx[3]]) if k != idx[3] else beta[k] for k in range(4)], dtype=object))
                e2 = fe(carr, bsig, iarr, gam * kap, p, n, lam)
                run.prove(f"{tag}/_get_strain_energy(sigma sigma_max beta, sigma_max gamma) == _get_strain_energy(beta, gamma)", f"{MOD}._get_strain_energy", list(cc.hyps) + list(cc.pc), S.zz(e2) == S.zz(e1),
                          replay=_rp_energy(crss, idx, sv, beta, gam, p, n, lam))
    E.Ctx.cur = None


def _rp_helper(kind, par, syms):
    def replay(model):
        kw = dict(kind=kind, par=[E.model_value(model, t) for t in par] if kind == "frame" else list(par))
        for k, v in syms.items():
            kw[k] = E.model_array(model, v).tolist() if isinstance(v, np.ndarray) else E.model_value(model, v.z)
        res = native.call("contracts.C04", "nat_helpers", kw)
        return (not res["ok"]), dict(checker="contracts.C04:nat_helpers", inputs=kw, observed=res, what="; ".join(res.get("messages", [])))

    return replay


def nat_helpers(kind, par, A, L, D, G, b, gam):
    import pydrex.core as c

    A, L, D, G, b = (np.array(x, float) for x in (A, L, D, G, b))
    msgs = []
    tol = dict(rtol=1e-9, atol=1e-9)
    if kind == "frame":
        q = np.array(par, float)
        if not q.any():
            q = np.array([1.0, 0, 0, 0])
        Q = CL.O_quat(q / np.linalg.norm(q))
        if not np.allclose(c._get_slip_invariants(Q @ D @ Q.T, A @ Q.T), c._get_slip_invariants(D, A), **tol):
            msgs.append("slip invariants not frame invariant")
        if not np.allclose(c._get_deformation_rate(0, A @ Q.T, b), Q @ c._get_deformation_rate(0, A, b) @ Q.T, **tol):
            msgs.append("Schmid tensor does not co-rotate")
        if not np.isclose(c._get_slip_rate_softest(Q @ G @ Q.T, Q @ L @ Q.T), c._get_slip_rate_softest(G, L), **tol):
            msgs.append("softest slip rate not frame invariant")
        if not np.allclose(c._get_orientation_change(A @ Q.T, Q @ L @ Q.T, Q @ G @ Q.T, gam), c._get_orientation_change(A, L, G, gam) @ Q.T, **tol):
            msgs.append("lattice rotation does not co-rotate")
    else:
        Sg = np.diag(np.array(par, float))
        sig = np.array(sigma_of(par), float)
        if not np.allclose(c._get_slip_invariants(D, Sg @ A), sig * c._get_slip_invariants(D, A), **tol):
            msgs.append("slip invariants: wrong signs under the two-fold")
        if not np.allclose(c._get_deformation_rate(0, Sg @ A, sig * b), c._get_deformation_rate(0, A, b), **tol):
            msgs.append("Schmid tensor not invariant under the two-fold")
        for kap in (1.0, -1.0):
            if not np.allclose(c._get_orientation_change(Sg @ A, L, kap * G, kap * gam), Sg @ c._get_orientation_change(A, L, G, gam), **tol):
                msgs.append("lattice rotation not equivariant under the two-fold")
    return dict(ok=not msgs, messages=msgs)


# ----------------------------------------------------------------------------- per-grain solver with coupled stubs
class Diverged(Exception):
    pass


def grain_rel(run, core, pair, kind):
    ph, fb = pair
    name = CL.PAIR_NAMES[pair]
    fn = f"{MOD}._get_rotation_and_strain"
    crss = O.CRSS[pair]
    variants = [None] if kind == "frame" else TWOFOLDS
    gr = CL.GrainRun(core, ph, fb)
    ex = gr.explore()
    if ex is None or not ex.complete:
        run.undecided(f"{kind}[{name}]", fn, "function not found / exploration incomplete")
        return
    run.paths += len(ex.paths)
    rp = _rp_grain(pair, kind, gr.args)
    for var in variants:
        vtag = f"{kind}[{name}]" + ("" if var is None else f"{var}")
        for pi, p1 in enumerate(ex.paths):
            if p1.exc is not None:
                continue
            (dA1, E1), calls1 = p1.value
            tag = f"{vtag}/path{pi}"
            c = E.Ctx(list(ex.ctx.hyps) + list(p1.pc))
            E.Ctx.cur = c
            c.reset_path([])
            A1, D1, L1 = gr.args["A"], gr.args["D"], gr.args["L"]
            if kind == "frame":
                Qn, s, hq, q = S.quat_rotation("q")
                c.hyps += hq
                c.solver.add(*hq)
                Q = S.ew(lambda v: v / s, Qn)
                A2, D2, L2 = mm(A1, Q.T), mm(Q, D1, Q.T), mm(Q, L1, Q.T)
                sig = [1, 1, 1, 1]
                Sg = None
            else:
                Q = None
                Sg = S.to_obj(np.diag(var))
                A2, D2, L2 = mm(Sg, A1), D1, L1
                sig = sigma_of(var)
            it = iter(calls1)
            state = dict(kappa=1, obl=[])

            def nxt(kindname):
                try:
                    cl = next(it)
                except StopIteration:
                    raise Diverged(f"second run calls {kindname} but the first run made no further call")
                if cl[0] != kindname:
                    raise Diverged(f"second run calls {kindname}, first run called {cl[0]}")
                return cl

            def same(a, b):
                return all(z3.eq(z3.simplify(S.zz(x)), z3.simplify(S.zz(y))) for x, y in zip(np.asarray(a, dtype=object).flat, np.asarray(b, dtype=object).flat))

            def req(label, ok):
                state["obl"].append((label, bool(ok)))

            def st_inv(strain_rate, orientation):
                cl = nxt("invariants")
                req("invariants called with the transformed strain rate and orientation", strain_rate is D2 and orientation is A2 and same(cl[1][0], D1) and same(cl[1][1], A1))
                I1 = cl[2]
                return S.SymArray(np.array([sig[k] * I1[k] for k in range(4)], dtype=object))

            def st_rates(invariants, slip_indices, crss_, n_):
                cl = nxt("slip_rates")
                idx = tuple(int(i) for i in slip_indices)
                I1 = cl[1][0]
                req("slip rates called with the (sign-related) invariants, same activity order", idx == cl[1][1] and same(invariants, [sig[k] * I1[k] for k in range(4)]))
                b1 = cl[2]
                state["kappa"] = sig[idx[3]]
                state["bsig"] = [sig[k] * sig[idx[3]] if k != idx[3] else 1 for k in range(4)]  # (beta_inac == 0: any sign relation holds)
                return S.SymArray(np.array([b1[k] * state["bsig"][k] for k in range(4)], dtype=object))

            def st_defrate(phase, orientation, slip_rates):
                cl = nxt("defrate")
                b1 = cl[1][2]
                if ph == 1:
                    state["kappa"] = sig[3]
                    state["bsig"] = [1, 1, 1, 1]
                bs = state.get("bsig", [1, 1, 1, 1])
                req("Schmid tensor called with the transformed orientation and the related slip rates", orientation is A2 and same(slip_rates, [b1[k] * bs[k] if isinstance(b1[k], Sym) else b1[k] for k in range(4)]))
                G1 = cl[2]
                # beta'_s sigma_s == kappa beta_s for every s with beta_s != 0  => G' = kappa G (two-fold) ; G' = Q G Q^T (frame)
                if kind == "frame":
                    G2 = mm(Q, G1, Q.T)
                else:
                    okk = all((not isinstance(b1[k], Sym) and b1[k] == 0) or bs[k] * sig[k] == state["kappa"] for k in range(4))
                    req("two-fold: beta'_s sigma_s == kappa beta_s for every active system", okk)
                    G2 = S.ew(lambda v: v * state["kappa"], G1)
                state["G2"] = G2
                return G2

            def st_softest(G, L):
                cl = nxt("softest")
                req("softest slip rate called with the related Schmid tensor and velocity gradient", G is state.get("G2") and L is L2 and same(cl[1][1], L1))
                return cl[2] * state["kappa"] if kind == "twofold" else cl[2]

            def st_orient(A, L, G, gam_):
                cl = nxt("orient")
                g1 = cl[1][3]
                exp_g = g1 * state["kappa"] if kind == "twofold" else g1
                req("lattice rotation called with related arguments", A is A2 and L is L2 and G is state.get("G2") and same([gam_], [exp_g]) and same(cl[1][0], A1))
                d1 = cl[2]
                return mm(d1, Q.T) if kind == "frame" else mm(Sg, d1)

            def st_energy(crss_, slip_rates, slip_indices, gam_, p_, n_, lam_):
                cl = nxt("energy")
                b1, g1 = cl[1][1], cl[1][3]
                bs = state.get("bsig", [1, 1, 1, 1])
                exp_g = g1 * state["kappa"] if kind == "twofold" else g1
                req("strain energy called with sign-related slip rates and softest rate, same order",
                    tuple(int(i) for i in slip_indices) == cl[1][2] and same(slip_rates, [b1[k] * bs[k] if isinstance(b1[k], Sym) else b1[k] for k in range(4)]) and same([gam_], [exp_g]))
                return cl[2]

            stubs = {"_get_slip_invariants": st_inv, "_get_slip_rates_olivine": st_rates, "_get_deformation_rate": st_defrate,
                     "_get_slip_rate_softest": st_softest, "_get_orientation_change": st_orient, "_get_strain_energy": st_energy}
            # argsort must return the first run's permutation: its argument has the same absolute values
            perm1 = None
            for cl in calls1:
                if cl[0] == "slip_rates":
                    perm1 = cl[1][1]
                elif cl[0] == "energy" and perm1 is None:
                    perm1 = cl[1][2]

            class Shim(S.NPShim):
                def argsort(self, a, *aa, **kk):
                    # argsort is a function of its argument: the second run gets the first run's permutation provided the
                    # arguments are equal (the activities |I/tau| are, because the invariants only change sign)
                    cl = nxt("argsort")
                    v1 = list(np.asarray(cl[1][0], dtype=object).flat)
                    v2 = list(np.asarray(a, dtype=object).flat)
                    # the first run's invariants are related to the second run's by the signs sigma: substitute
                    eqs = []
                    for x1, x2 in zip(v1, v2):
                        if isinstance(x1, Sym) or isinstance(x2, Sym):
                            eqs.append(S.zz(x1) == S.zz(x2))
                        else:
                            req("argsort argument (concrete) identical", x1 == x2)
                    if eqs:
                        v = E.prove(list(c.hyps) + list(c.pc), z3.And(*eqs), timeout_s=5)
                        req("argsort argument equal to the first run's (same activities)", v.status == "proved")
                    return np.array(cl[2])

            g2 = E.rebind_module(core, overrides={k: v for k, v in stubs.items() if hasattr(core, k)}, np_shim=Shim())
            f2 = g2["_get_rotation_and_strain"]
            nwork = len(c.work)
            c.exploring = True  # forks of the second run are detected below (len(c.work)) and reported, not followed
            try:
                out2 = f2(core.MineralPhase(ph), core.MineralFabric(fb), A2, D2, L2, gr.args["p"], gr.args["n"], gr.args["lam"])
            except Diverged as e:
                res = native.call("contracts.C04", "nat_grain_search", dict(phase=ph, fabric=fb, kind=kind, seed=pi, count=40))
                if res["failures"]:
                    run.violation(f"{tag}/equivariance of the per-grain solver (native search)", fn, dict(checker="contracts.C04:nat_grain_rel", inputs=res["failures"][0]["inputs"], what=res["failures"][0]["what"]))
                else:
                    run.undecided(f"{tag}/coupled-stub proof not applicable", fn, f"call structure differs between the two runs ({e}); native search found no failing input")
                continue
            except S.Infeasible:
                run.undecided(f"{tag}", fn, "second run infeasible under the first run's path condition")
                continue
            forked = len(c.work) > nwork
            leftover = next(it, None)
            Hc = list(c.hyps) + list(c.pc)
            if forked or leftover is not None:
                run.prove(f"{tag}/same control flow on the transformed input", fn, list(c.hyps), z3.BoolVal(False), replay=rp,
                          detail="a branch of the second run is not determined by the first run's path condition" if forked else f"first run made an extra call to {leftover[0]}")
                continue
            bad = [lab for lab, ok in state["obl"] if not ok]
            if bad:
                # the call structure differs from what the relational contracts cover (helper inlined, argument re-derived, ...):
                # that is not evidence of a violation -- search natively; a concrete failing input decides, otherwise undecided
                res = native.call("contracts.C04", "nat_grain_search", dict(phase=ph, fabric=fb, kind=kind, seed=pi, count=40))
                if res["failures"]:
                    run.violation(f"{tag}/equivariance of the per-grain solver (native search)", fn, dict(checker="contracts.C04:nat_grain_rel", inputs=res["failures"][0]["inputs"], what=res["failures"][0]["what"]))
                else:
                    run.undecided(f"{tag}/coupled-stub proof not applicable", fn, "call structure differs from the relational contracts (" + "; ".join(bad)[:160] + "); native search found no failing input")
                continue
            run.exact(f"{tag}/every callee receives arguments related as its relational contract requires", fn, True, f"{len(state['obl'])} call sites")
            dA2, E2 = out2
            if kind == "frame":
                want = mm(np.asarray(dA1, dtype=object).view(S.SymArray), Q.T) if any(isinstance(v, Sym) for v in np.asarray(dA1, dtype=object).flat) else dA1
            else:
                want = mm(Sg, np.asarray(dA1, dtype=object).view(S.SymArray)) if any(isinstance(v, Sym) for v in np.asarray(dA1, dtype=object).flat) else dA1
            prove_entries(run, f"{tag}/orientation rate transforms with the input ({'dA Q^T' if kind == 'frame' else 'S dA'})", fn, Hc, dA2, want, replay=rp)
            run.prove(f"{tag}/strain energy unchanged", fn, Hc, S.zz(E2) == S.zz(E1), replay=rp)
    E.Ctx.cur = None


def _rp_grain(pair, kind, args):
    def replay(model):
        kw = dict(phase=pair[0], fabric=pair[1], kind=kind,
                  A=E.model_array(model, args["A"]).tolist(), L=E.model_array(model, args["L"]).tolist(),
                  p=E.model_value(model, args["p"].z), n=E.model_value(model, args["n"].z), lam=E.model_value(model, args["lam"].z),
                  q=[E.model_value(model, z3.Real(f"q_{k}")) for k in "abcd"])
        res = native.call("contracts.C04", "nat_grain_rel", kw)
        return (not res["ok"]), dict(checker="contracts.C04:nat_grain_rel", inputs=kw, observed=res, what="; ".join(res.get("messages", [])))

    return replay


def nat_grain_rel(phase, fabric, kind, A, L, p, n, lam, q):
    """Real per-grain solver on related inputs.  The orientation is projected onto SO(3) first (C04 quantifies over rotations)."""
    import pydrex.core as c

    A, L = np.array(A, float), np.array(L, float)
    U, _, Vt = np.linalg.svd(A) if np.isfinite(A).all() and np.linalg.matrix_rank(A) == 3 else (np.eye(3), None, np.eye(3))
    A = U @ Vt
    if np.linalg.det(A) < 0:
        A[0] *= -1
    D = (L + L.T) / 2
    msgs = []
    f = lambda A_, D_, L_: c._get_rotation_and_strain(c.MineralPhase(phase), c.MineralFabric(fabric), A_, D_, L_, float(p), float(n), float(lam))
    try:
        d1, e1 = f(A, D, L)
        if kind == "frame":
            qq = np.array(q, float)
            if not qq.any():
                qq = np.array([1.0, 2, 3, 4])
            Q = CL.O_quat(qq / np.linalg.norm(qq))
            d2, e2 = f(A @ Q.T, Q @ D @ Q.T, Q @ L @ Q.T)
            if not (np.allclose(d2, d1 @ Q.T, rtol=1e-8, atol=1e-9) and np.isclose(e2, e1, rtol=1e-8, atol=1e-12)):
                msgs.append(f"frame rotation: rate/energy mismatch {np.abs(d2 - d1 @ Q.T).max():.2e} / {abs(e2 - e1):.2e}")
        else:
            for sv in TWOFOLDS:
                Sg = np.diag(np.array(sv, float))
                d2, e2 = f(Sg @ A, D, L)
                if not (np.allclose(d2, Sg @ d1, rtol=1e-8, atol=1e-9) and np.isclose(e2, e1, rtol=1e-8, atol=1e-12)):
                    msgs.append(f"two-fold {sv}: rate/energy mismatch {np.abs(d2 - Sg @ d1).max():.2e} / {abs(e2 - e1):.2e}")
    except Exception as e:
        msgs.append(f"raised {type(e).__name__}")
    return dict(ok=not msgs, messages=msgs)


# ----------------------------------------------------------------------------- derivatives (symbolic n), coupled per-grain stub
def derivatives_rel(run, core):
    fn = f"{MOD}.derivatives"
    probs = CL.loop_rule_admissible(core.derivatives)
    if probs:
        run.undecided("derivatives/map-rule-admissible", fn, f"{probs}")
        return
    G = LA.G
    for regime in (4, 6):
        for kind in ("frame", "twofold"):
            tag = f"derivatives[regime={regime}]/{kind}"
            c = E.Ctx([])
            E.Ctx.cur = c
            c.reset_path([])
            dr = CL.DerivRun(core, core.DeformationRegime(regime))
            dO1, df1 = dr.run()
            sg = dr.sigma
            n = dr.n
            if kind == "frame":
                Qn, s, hq, q = S.quat_rotation("q")
                Q = S.ew(lambda v: v / s, Qn)
                O2 = LA.LArr(n, (3, 3), lambda i, a=dr.O.fn: mm(a(i), Q.T))
                D2, L2 = mm(Q, dr.D, Q.T), mm(Q, dr.L, Q.T)
                sel = None
                H = list(c.hyps) + hq
            else:
                sv = TWOFOLDS[regime % 3]
                Sg = S.to_obj(np.diag(sv))
                selF = z3.Function("sel", z3.IntSort(), z3.BoolSort())  # the (arbitrary) subset of relabelled grains
                O2 = LA.LArr(n, (3, 3), lambda i, a=dr.O.fn: S.ew(lambda x, y: S.s_where(S.SymBool(selF(i)), x, y), mm(Sg, a(i)), a(i)))
                D2, L2 = dr.D, dr.L
                H = list(c.hyps)
            calls2 = []
            rule = LA.LoopRule()
            LA.LoopRule.cur = rule
            LA.Sigma.cur = sg  # same registry: equal summands get the same sum symbol

            def stub2(phase, fabric, orientation, D, L, p, nn, lam):
                gg = rule.var
                calls2.append(dict(g=gg, orientation=orientation, D=D, L=L, p=p, n=nn, lam=lam))
                dA = LA.uf("dA", (3, 3))(gg.z)
                En = LA.uf("E")(gg.z)
                if kind == "frame":
                    return mm(dA, Q.T), En
                return S.ew(lambda x, y: S.s_where(S.SymBool(selF(gg.z)), x, y), mm(Sg, dA), dA), En

            g2 = E.rebind_module(core, overrides={"_get_rotation_and_strain": stub2, "range": LA.sym_range}, np_shim=LA.NPLift())
            dO2, df2 = g2["derivatives"](core.DeformationRegime(regime), core.MineralPhase(0), core.MineralFabric(0), n, O2, dr.f, D2, L2, dr.W, dr.p, dr.nn, dr.lam, dr.M, dr.phi)
            ok = len(calls2) == 1
            if ok:
                cl = calls2[0]
                with S.quiet():
                    exp_o = O2.fn(cl["g"].z)
                ok = all(z3.eq(z3.simplify(S.zz(a)), z3.simplify(S.zz(b))) for a, b in zip(np.asarray(cl["orientation"], dtype=object).flat, np.asarray(exp_o, dtype=object).flat)) \
                    and cl["D"] is D2 and cl["L"] is L2 and cl["p"] is dr.p and cl["n"] is dr.nn and cl["lam"] is dr.lam
            run.exact(f"{tag}/per-grain solver receives the transformed orientation of grain g and the transformed D, L", fn, ok, "precondition of the per-grain relational contract at the call site")
            Hg = H + list(c.pc) + [G >= 0, G < n.z]
            run.prove(f"{tag}/volume rates unchanged for every grain", fn, Hg, S.zz(df2.at(G)) == S.zz(df1.at(G)), structural=True)
            a1, a2 = dO1.at(G), dO2.at(G)
            if kind == "frame":
                want = mm(a1, Q.T)
            else:
                want = S.ew(lambda x, y: S.s_where(S.SymBool(selF(G)), x, y), mm(Sg, a1), a1)
            prove_entries(run, f"{tag}/orientation rates transform grain by grain", fn, Hg, a2, want)
            run.exact(f"{tag}/mean strain energy is the same sum", fn, len(sg.sums) == 1, f"sum symbols: {list(sg.sums)}")
            E.Ctx.cur = None
            LA.Sigma.cur = None
            LA.LoopRule.cur = None


# ----------------------------------------------------------------------------- bounded stand-ins
def bounded(run):
    nscen = 240 if run.tier == "quick" else 3000 * run.tmul
    jobs = [dict(seed=run.seed * 101 + k, count=nscen // 12) for k in range(12)]
    res, errs = native.pmap("contracts.C04", "nat_sweep", jobs)
    run.worker_errors(errs, len(jobs))
    ev = sum(r["evaluations"] for r in res if r and "_error" not in r)
    fails = [f for r in res if r and "_error" not in r for f in r["failures"]]
    run.bounded_result("compiled derivatives under frame rotations and two-fold relabelling of grain subsets (instantaneous rates, rounding level)", f"{MOD}.derivatives",
                       f"{ev} random inputs, 6 fabrics x 2 regimes, integer and non-integer exponents", ev, fails, ev)
    run_bounded(run, ["C04"], "integrated textures in rotated frames / with relabelled grains (solver tolerance)", "pydrex.minerals.Mineral.update_orientations", per_job=2 if run.tier == "quick" else 20 * run.tmul)


def nat_sweep(seed, count):
    import pydrex.core as c

    rng = np.random.default_rng(seed)
    fails, ev = [], 0
    for it in range(count):
        ph, fb = CL.PAIRS[rng.integers(6)]
        regime = int(rng.choice([4, 6]))
        n = int(rng.choice([1, 4, 9]))
        As = np.array([CL.random_orientation(rng) for _ in range(n)])
        L = rng.normal(size=(3, 3))
        if rng.random() < 0.3:
            L = np.zeros((3, 3)); i, j = rng.choice(3, 2, replace=False); L[i, j] = 2.0
        D = (L + L.T) / 2
        em = np.abs(np.linalg.eigvalsh(D)).max()
        L, D = L / em, D / em
        f = rng.random(n); f /= f.sum()
        p, lam, M, phi = rng.uniform(1, 2), rng.uniform(0, 10), rng.uniform(0, 200), rng.uniform(0.1, 1)
        nn = float(rng.choice([2.0, 3.0, 3.5, 4.0, 5.0, rng.uniform(2, 5)]))
        W = np.zeros((3, 3))
        ev += 1
        msgs = []
        try:
            dO, df = c.derivatives(regime, ph, fb, n, As, f, D, L, W, p, nn, lam, M, phi)
            Q = CL.random_orientation(rng)
            dO2, df2 = c.derivatives(regime, ph, fb, n, As @ Q.T, f, Q @ D @ Q.T, Q @ L @ Q.T, W, p, nn, lam, M, phi)
            sc = max(1.0, np.abs(dO).max())
            if not (np.allclose(dO2, dO @ Q.T, rtol=1e-9, atol=1e-10 * sc) and np.allclose(df2, df, rtol=1e-9, atol=1e-11 * max(1.0, np.abs(df).max()))):
                msgs.append(f"frame rotation: dO {np.abs(dO2 - dO @ Q.T).max():.2e}, df {np.abs(df2 - df).max():.2e}")
            sv = TWOFOLDS[rng.integers(3)]
            Sg = np.diag(np.array(sv, float))
            sub = rng.random(n) < 0.5
            A3 = As.copy(); A3[sub] = Sg @ A3[sub]
            dO3, df3 = c.derivatives(regime, ph, fb, n, A3, f, D, L, W, p, nn, lam, M, phi)
            ex = dO.copy(); ex[sub] = Sg @ ex[sub]
            if not (np.allclose(dO3, ex, rtol=1e-9, atol=1e-10 * sc) and np.allclose(df3, df, rtol=1e-9, atol=1e-11 * max(1.0, np.abs(df).max()))):
                msgs.append(f"two-fold {sv} on a subset: dO {np.abs(dO3 - ex).max():.2e}, df {np.abs(df3 - df).max():.2e}")
        except Exception as e:
            msgs.append(f"raised {type(e).__name__}: {e}")
        if msgs:
            fails.append(dict(case=f"{seed}.{it}", checker="contracts.C04:nat_case", inputs=dict(seed=int(seed), it=it, count=count), what=f"{CL.PAIR_NAMES[(ph, fb)]} regime {regime} n={nn}: " + "; ".join(msgs)))
    return dict(evaluations=ev, failures=fails[:5])


def nat_case(seed, it, count):
    r = nat_sweep(seed, count)
    hit = [f for f in r["failures"] if f["case"] == f"{seed}.{it}"]
    return dict(ok=not hit, failures=hit)


def _rp_rates(crss, idx, sv, I, n):
    def replay(model):
        kw = dict(crss=[float(x) for x in crss], idx=list(idx), sv=list(sv), I=E.model_array(model, I).tolist(), n=E.model_value(model, n.z))
        res = native.call("contracts.C04", "nat_rates_rel", kw)
        return (not res["ok"]), dict(checker="contracts.C04:nat_rates_rel", inputs=kw, observed=res, what="relative slip rates do not change sign with the invariants under the two-fold")

    return replay


def nat_rates_rel(crss, idx, sv, I, n):
    import pydrex.core as c

    crss, I = np.array(crss, float), np.array(I, float)
    sig = np.array(sigma_of(sv), float)
    idx = np.array(idx)
    if I[idx[3]] == 0:
        return dict(ok=True, note="precondition not met")
    b1 = c._get_slip_rates_olivine(I, idx, crss, float(n))
    b2 = c._get_slip_rates_olivine(sig * I, idx, crss, float(n))
    want = np.array([b1[k] * sig[k] * sig[idx[3]] if k != idx[3] else b1[k] for k in range(4)])
    return dict(ok=bool(np.allclose(b2, want, rtol=1e-9, atol=1e-12)), got=b2.tolist(), want=want.tolist())


def _rp_energy(crss, idx, sv, beta, gam, p, n, lam):
    def replay(model):
        kw = dict(crss=[float(x) for x in crss], idx=list(idx), sv=list(sv), beta=E.model_array(model, beta).tolist(), gam=E.model_value(model, gam.z),
                  p=E.model_value(model, p.z), n=E.model_value(model, n.z), lam=E.model_value(model, lam.z))
        res = native.call("contracts.C04", "nat_energy_rel", kw)
        return (not res["ok"]), dict(checker="contracts.C04:nat_energy_rel", inputs=kw, observed=res, what="strain energy changes under sign changes of the slip rates")

    return replay


def nat_energy_rel(crss, idx, sv, beta, gam, p, n, lam):
    import pydrex.core as c

    crss, beta = np.array(crss, float), np.array(beta, float)
    sig = np.array(sigma_of(sv), float)
    idx = np.array(idx)
    b2 = np.array([beta[k] * sig[k] * sig[idx[3]] if k != idx[3] else beta[k] for k in range(4)])
    e1 = c._get_strain_energy(crss, beta, idx, float(gam), float(p), float(n), float(lam))
    e2 = c._get_strain_energy(crss, b2, idx, float(gam) * sig[idx[3]], float(p), float(n), float(lam))
    return dict(ok=bool(np.isclose(e1, e2, rtol=1e-9, atol=1e-12)), e1=float(e1), e2=float(e2))


def nat_grain_search(phase, fabric, kind, seed, count):
    rng = np.random.default_rng([seed, phase, fabric])
    fails = []
    for it in range(count):
        q = rng.normal(size=4)
        A = CL.O_quat(q / np.linalg.norm(q)) if it % 4 else np.eye(3)[rng.permutation(3)]
        L = rng.normal(size=(3, 3))
        if it % 3 == 0:
            L = np.zeros((3, 3)); i, j = rng.choice(3, 2, replace=False); L[i, j] = 2.0
        kw = dict(phase=phase, fabric=fabric, kind=kind, A=A.tolist(), L=L.tolist(), p=float(rng.uniform(1, 2)), n=float(rng.choice([2.0, 3.5, 4.0, rng.uniform(2, 5)])), lam=float(rng.uniform(0, 10)), q=rng.normal(size=4).tolist())
        r = nat_grain_rel(**kw)
        if not r["ok"]:
            fails.append(dict(inputs=kw, what="; ".join(r["messages"])))
            break
    return dict(failures=fails)
