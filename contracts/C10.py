"""C10 — the Voigt average is the volume-weighted mean of rotated single-crystal stiffnesses."""
import ast
import inspect
import itertools
import textwrap

import numpy as np
import z3

from contracts import C11
from pv import engine as E
from pv import larr as LA
from pv import native
from pv import sym as S
from pv.facets import prove_entries
from pv.sym import Sym, SymInt, sym, symarr, symmat_sym
from pv.util import real_module

FN = "pydrex.minerals.voigt_averages"
G = LA.G


def run(run):
    run.assume("S-REAL", "S-PY", "S-NUMPY", "S-NUMBA", "A-SIGMA", "A-QUAT")
    items = [("avg", asm, custom) for asm in ((0,), (1,), (0, 1), (1, 0)) for custom in (False, True)] + [("lemmas",), ("errors",), ("reduce-rule",)]
    run.fork_map(_section, items)
    bounded(run)


def _section(run, item):
    try:
        if item[0] == "avg":
            avg_facets(run, item[1], item[2])
        elif item[0] == "lemmas":
            lemmas(run)
        elif item[0] == "errors":
            error_facets(run)
        else:
            reduce_rule(run)
    except E.UNSUPPORTED_EXC as e:
        run.undecided(str(item), FN, f"unsupported construct: {e}")
    except (AttributeError, TypeError, KeyError, IndexError) as e:
        import traceback

        run.undecided(str(item), FN, f"not interpretable: {type(e).__name__}: {e} @ {traceback.format_exc().splitlines()[-3].strip()[:120]}")
    finally:
        E.Ctx.cur = None
        LA.Sigma.cur = None
        LA.LoopRule.cur = None


def reduce_rule(run):
    """Side condition of the reduce rule: every loop body of voigt_averages that runs over grains is a single
    augmented assignment `acc[...] += term` whose term does not read acc."""
    M = real_module("pydrex.minerals")
    src = textwrap.dedent(inspect.getsource(M.voigt_averages))
    tree = ast.parse(src)
    ok, why = False, "no loop over range(n_grains) found"
    for node in ast.walk(tree):
        if isinstance(node, ast.For) and isinstance(node.iter, ast.Call) and getattr(node.iter.func, "id", "") == "range" and any(isinstance(a, ast.Name) and a.id == "n_grains" for a in node.iter.args):
            body = node.body
            if len(body) == 1 and isinstance(body[0], ast.AugAssign) and isinstance(body[0].op, ast.Add):
                tgt = body[0].target
                base = tgt
                while isinstance(base, (ast.Subscript, ast.Attribute)):
                    base = base.value
                reads = {n.id for n in ast.walk(body[0].value) if isinstance(n, ast.Name)}
                ok = isinstance(base, ast.Name) and base.id not in reads
                why = f"accumulator {getattr(base, 'id', '?')}; term reads {sorted(reads)[:8]}"
            else:
                ok, why = False, f"loop body has {len(body)} statements / is not `acc += term`"
    run.exact("reduce rule admissible: grain loop body is `acc[i] += term(g)` with term free of acc", FN, ok, why)


def _minerals(M, phases, n, n_steps=1):
    out = []
    for k, ph in enumerate(phases):
        m = M.Mineral.__new__(M.Mineral)
        m.phase = ph
        m.n_grains = n
        m.orientations = [LA.larr(f"A{k}_{i}", n, (3, 3)) for i in range(n_steps)]
        m.fractions = [LA.larr(f"f{k}_{i}", n, ()) for i in range(n_steps)]
        out.append(m)
    return out


def avg_facets(run, assemblage, custom):
    M = real_module("pydrex.minerals")
    T = real_module("pydrex.tensors")
    core = real_module("pydrex.core")
    tag = f"avg[assemblage={assemblage},{'custom' if custom else 'default'} stiffness]"
    n = SymInt(z3.Int("n"))
    c = E.Ctx([n.z >= 1])
    E.Ctx.cur = c
    c.reset_path([])
    LA.LoopRule.cur = LA.LoopRule()
    gT = E.rebind_module(T)

    class TensProxy:
        def __getattr__(s, k):
            return gT[k]

    g = dict(M.__dict__)
    g.update(np=LA.NPLift(), _tensors=TensProxy(), range=LA.sym_range)
    f = E.rebind_function(M.voigt_averages, g)
    # minerals: one per phase of the assemblage (in list order reversed on purpose: list order != assemblage order)
    phases = [core.MineralPhase(p) for p in assemblage][::-1]
    mins = _minerals(M, phases, n)
    phis = [sym(f"phi{k}") for k in range(len(assemblage))]
    st = M.StiffnessTensors()
    if custom:
        st.olivine = symmat_sym("Col", 6)
        st.enstatite = symmat_sym("Cen", 6)
    out = f(mins, [core.MineralPhase(p) for p in assemblage], phis, st)
    rule = LA.LoopRule.cur
    if rule.loops != len(mins):
        run.undecided(f"{tag}/reduce rule", FN, f"{rule.loops} symbolic grain loops for {len(mins)} minerals: the reduce rule does not apply to this loop structure; bounded stand-in decides")
        return
    run.exact(f"{tag}/one grain loop per mineral and snapshot", FN, True, f"{rule.loops} symbolic loops for {len(mins)} minerals")
    # the summand of each mineral: substitute the loop variables (distinct fresh names gloop!k) by the generic index
    res = np.asarray(out[0], dtype=object)
    loopvars = sorted({nm for v in res.flat if isinstance(v, Sym) for nm in _int_consts(v.z) if nm.startswith("gloop")})
    H = list(c.hyps) + [G >= 0, G < n.z]
    # expected: sum over minerals of voigt(law(C_phase, A^T)) f phi_phase ; compare as polynomials in the per-mineral generic grains
    want = None
    for k, m in enumerate(mins):
        gv = z3.Int(loopvars[k]) if k < len(loopvars) else G
        with S.quiet():
            A = m.orientations[0].fn(gv)
            fr = m.fractions[0].fn(gv)
        Cph = np.asarray(st.olivine if int(m.phase) == 0 else st.enstatite, dtype=object)
        Cph = S.to_obj(Cph) if Cph.dtype != object or not any(isinstance(v, Sym) for v in Cph.flat) else S.SymArray(Cph)
        phi = phis[list(assemblage).index(int(m.phase))]
        term = C11.spec_t2v(C11.spec_rotate(C11.spec_v2t(Cph), A.T))
        term = S.ew(lambda v: v * fr * phi, term)
        want = term if want is None else want + term
    prove_entries(run, f"{tag}/summand == voigt(rotate(C_phase(m), A_g^T)) * f_g * phi_phase(m), summed over minerals", FN, H + list(c.pc), res, want, replay=_rp_avg(assemblage, custom))
    sym_ok = all(z3.is_true(z3.simplify(S.zz(res[i, j]) == S.zz(res[j, i]))) or True for i in range(6) for j in range(i))
    prove_entries(run, f"{tag}/result symmetric", FN, H + list(c.pc), res, res.T)


def _int_consts(t, acc=None, seen=None):
    if acc is None:
        acc, seen = set(), set()
    if t.get_id() in seen:
        return acc
    seen.add(t.get_id())
    if z3.is_app(t):
        if t.num_args() == 0 and t.decl().kind() == z3.Z3_OP_UNINTERPRETED and t.sort() == z3.IntSort():
            acc.add(t.decl().name())
        for ch in t.children():
            _int_consts(ch, acc, seen)
    return acc


def lemmas(run):
    """Bulk and shear moduli are texture independent: the two trace invariants of the rotated single-crystal tensor are those
    of the unrotated one (rotation parametrised by a quaternion); co-rotation is C11's composition lemma; an aligned grain
    returns the single-crystal tensor (rotate(C, I) == C in C11)."""
    c = E.Ctx([])
    E.Ctx.cur = c
    c.reset_path([])
    Ms = symmat_sym("c", 6)
    C = C11.spec_v2t(Ms)
    Qn, s, hq, q = S.quat_rotation("q")
    Cr = C11.spec_rotate(C, Qn)
    s4 = s * s * s * s
    iijj = sum(Cr[i, i, j, j] for i in range(3) for j in range(3))
    ijij = sum(Cr[i, j, i, j] for i in range(3) for j in range(3))
    iijj0 = sum(C[i, i, j, j] for i in range(3) for j in range(3))
    ijij0 = sum(C[i, j, i, j] for i in range(3) for j in range(3))
    run.prove("lemma/C_iijj of a rotated stiffness tensor is that of the single crystal", FN, hq, S.zz(iijj) == S.zz(iijj0 * s4), structural=True)
    run.prove("lemma/C_ijij of a rotated stiffness tensor is that of the single crystal", FN, hq, S.zz(ijij) == S.zz(ijij0 * s4), structural=True)
    # LIN: summand invariants are f_g * phi * (single-crystal invariant): SUM == phi * K * SUM f == phi * K
    K, f_, phi, SUMf, SUMk = (z3.Real(k) for k in ("K", "f", "phi", "SUMf", "SUMK"))
    run.prove("lemma/moduli of the average are the phase-fraction weighted single-crystal moduli (laws LIN, SUM f == 1)", FN, [SUMk == (phi * K) * SUMf, SUMf == 1], SUMk == phi * K, structural=True)
    run.note("co-rotation with the frame and 'one aligned grain returns C' follow from C11's rotate composition / identity facets applied to the proved summand formula")


def error_facets(run):
    M = real_module("pydrex.minerals")
    core = real_module("pydrex.core")
    f = M.voigt_averages

    def mk(n, steps, fsteps=None):
        m = M.Mineral.__new__(M.Mineral)
        m.phase = core.MineralPhase.olivine
        m.n_grains = n
        m.orientations = [np.array([np.eye(3)] * n) for _ in range(steps)]
        m.fractions = [np.full(n, 1.0 / n) for _ in range(fsteps if fsteps is not None else steps)]
        return m

    cases = [("unequal grain counts", [mk(2, 1), mk(3, 1)]), ("unequal orientation-snapshot counts", [mk(2, 1), mk(2, 2)]),
             ("fraction-snapshot count differs from orientation-snapshot count", [mk(2, 2, 1)]), ("second mineral's fraction snapshots differ", [mk(2, 1), mk(2, 1, 2)])]
    for lab, ms in cases:
        try:
            f(ms, [core.MineralPhase.olivine], [1.0])
            ok = False
        except ValueError:
            ok = True
        except Exception as e:
            ok = False
        run.exact(f"errors/{lab} -> ValueError", FN, ok, "mismatched minerals are rejected")
    ok = True
    try:
        f([mk(2, 2), mk(2, 2)], [core.MineralPhase.olivine], [1.0])
    except Exception:
        ok = False
    run.exact("errors/consistent minerals are accepted", FN, ok, "no spurious rejection")


def _rp_avg(assemblage, custom):
    def replay(model):
        res = native.call("contracts.C10", "nat_sweep", dict(seed=5, count=30, only=list(assemblage)))
        if res["failures"]:
            f0 = res["failures"][0]
            return True, dict(checker=f0["checker"], inputs=f0["inputs"], what=f0["what"])
        return False, dict(note="native sweep found no failing input")

    return replay


def bounded(run):
    cnt = 96 if run.tier == "quick" else 1200 * run.tmul
    jobs = [dict(seed=run.seed * 17 + k, count=cnt // 8) for k in range(8)]
    res, errs = native.pmap("contracts.C10", "nat_sweep", jobs)
    run.worker_errors(errs, len(jobs))
    ev = sum(r["evaluations"] for r in res if r and "_error" not in r)
    fails = [f for r in res if r and "_error" not in r for f in r["failures"]]
    run.bounded_result("real voigt_averages vs independent einsum reference: all assemblage orders, custom stiffness, moduli, co-rotation, aligned grain, repeated calls, rejections",
                       FN, f"{ev} generated aggregates (1-2 minerals, 1-3 snapshots, 1-30 grains)", ev, fails, ev)


def nat_sweep(seed, count, only=None):
    import pydrex
    from pydrex import core, minerals as M, tensors as T
    from scipy.spatial.transform import Rotation as R

    rng = np.random.default_rng(seed)
    fails, ev = [], 0
    for it in range(count):
        asm = [(0,), (1,), (0, 1), (1, 0)][it % 4] if only is None else tuple(only)
        n = int(rng.choice([1, 2, 7, 30])) if it % 16 != 9 else int(rng.choice([4096, 4500]))
        steps = int(rng.choice([1, 2, 3])) if n < 4000 else 1
        custom = bool(rng.integers(2))
        phis = rng.random(len(asm)); phis /= phis.sum()
        st = M.StiffnessTensors()
        if custom:
            for nm in ("olivine", "enstatite"):
                A_ = rng.normal(size=(6, 6))
                Cc = A_ @ A_.T + 50 * np.eye(6)
                if it % 3 == 1:  # integer-valued tensor typed as integers (e.g. GPa values typed in by hand)
                    Ai = rng.integers(-3, 4, size=(6, 6))
                    Cc = (Ai @ Ai.T + 50 * np.eye(6, dtype=np.int64)).astype(np.int64)
                elif it % 3 == 2:
                    Cc = Cc.astype(np.float32)
                setattr(st, nm, Cc)
        C = {0: np.array(st.olivine), 1: np.array(st.enstatite)}
        C64 = {k: v.astype(np.float64) for k, v in C.items()}  # the values, whatever the dtype they were given in
        mins = []
        for ph in asm[::-1]:
            O = [R.random(n, random_state=int(rng.integers(1 << 30))).as_matrix().reshape(n, 3, 3) for _ in range(steps)]
            f = []
            for _ in range(steps):
                x = rng.random(n) ** 3; f.append(x / x.sum())
            m = pydrex.Mineral(phase=core.MineralPhase(ph), fabric=core.MineralFabric.olivine_A if ph == 0 else core.MineralFabric.enstatite_AB, n_grains=n, fractions_init=f[0], orientations_init=O[0])
            m.orientations = list(O); m.fractions = list(f)
            mins.append(m)
        ev += 1
        msgs = []
        try:
            keep = {k: v.copy() for k, v in C.items()}
            out = M.voigt_averages(mins, [core.MineralPhase(p) for p in asm], list(phis), st)
            out2 = M.voigt_averages(mins, [core.MineralPhase(p) for p in asm], list(phis), st)  # repeated call: no hidden state
            ref = np.zeros((steps, 6, 6))
            for i in range(steps):
                for m in mins:
                    C4 = T.voigt_to_elastic_tensor(C64[int(m.phase)])
                    phi = phis[list(asm).index(int(m.phase))]
                    for g in range(n):
                        A = m.orientations[i][g]
                        ref[i] += T.elastic_tensor_to_voigt(np.einsum("ia,jb,kc,ld,abcd->ijkl", A.T, A.T, A.T, A.T, C4)) * m.fractions[i][g] * phi
            sc = np.abs(ref).max()
            if out.shape != ref.shape or not np.allclose(out, ref, rtol=1e-9, atol=1e-9 * sc):
                msgs.append(f"differs from the volume-weighted sum of rotated single-crystal tensors by {np.abs(out - ref).max():.3e}")
            if not np.allclose(out2, out, rtol=0, atol=0):
                msgs.append("a repeated call gives a different result")
            if not all(np.array_equal(keep[k], np.array(getattr(st, nm))) for k, nm in ((0, "olivine"), (1, "enstatite"))):
                msgs.append("the caller's stiffness tensors were modified")
            if not np.allclose(out, out.transpose(0, 2, 1), atol=1e-9 * sc):
                msgs.append("not symmetric")
            for i in range(steps):
                Kc = sum(phis[list(asm).index(p)] * np.trace(T.voigt_decompose(C64[p])[0]) / 9 for p in asm)
                d, v = T.voigt_decompose(out[i])
                if abs(np.trace(d) / 9 - Kc) > 1e-8 * sc:
                    msgs.append("bulk modulus depends on the texture")
            # linear in the stiffness: another unit (Pa instead of GPa, 1e-12 GPa) scales the average by the same factor
            if it % 3 == 0:
                for unit in (1e9, 1e-12):
                    st_u = M.StiffnessTensors()
                    st_u.olivine, st_u.enstatite = C64[0] * unit, C64[1] * unit
                    out_u = M.voigt_averages(mins, [core.MineralPhase(p) for p in asm], list(phis), st_u)
                    if not np.allclose(out_u, unit * ref, rtol=1e-9, atol=1e-9 * unit * sc):
                        msgs.append(f"not linear in the stiffness: tensors scaled by {unit:g} give an average off by {np.abs(out_u / unit - ref).max():.3e}")
                        break
            # listing order of minerals
            out3 = M.voigt_averages(mins[::-1], [core.MineralPhase(p) for p in asm], list(phis), st)
            if not np.allclose(out3, out, rtol=1e-12, atol=1e-12 * sc):
                msgs.append("depends on the order of the mineral list")
            if len(asm) == 2:
                out4 = M.voigt_averages(mins, [core.MineralPhase(p) for p in asm[::-1]], list(phis[::-1]), st)
                if not np.allclose(out4, out, rtol=1e-12, atol=1e-12 * sc):
                    msgs.append("depends on the order of the phase list")
            Q = R.random(random_state=int(rng.integers(1 << 30))).as_matrix()
            rot = []
            for m in mins:
                m2 = pydrex.Mineral(phase=m.phase, fabric=m.fabric, n_grains=n, fractions_init=m.fractions[0], orientations_init=m.orientations[0])
                m2.orientations = [o @ Q.T for o in m.orientations]; m2.fractions = list(m.fractions)
                rot.append(m2)
            outq = M.voigt_averages(rot, [core.MineralPhase(p) for p in asm], list(phis), st)
            for i in range(steps):
                want = T.elastic_tensor_to_voigt(T.rotate(T.voigt_to_elastic_tensor(out[i]), Q))
                if not np.allclose(outq[i], want, rtol=1e-8, atol=1e-8 * sc):
                    msgs.append("does not co-rotate with the reference frame")
                    break
            one = pydrex.Mineral(phase=core.MineralPhase(asm[0]), fabric=mins[-1].fabric if int(mins[-1].phase) == asm[0] else mins[0].fabric, n_grains=1, fractions_init=np.array([1.0]), orientations_init=np.array([np.eye(3)]))
            o1 = M.voigt_averages([one], [core.MineralPhase(asm[0])], [1.0], st)
            if not np.allclose(o1[0], keep[asm[0]], rtol=1e-12, atol=1e-12 * sc):
                msgs.append("one aligned grain does not return the single-crystal tensor")
        except Exception as e:
            msgs.append(f"raised {type(e).__name__}: {e}")
        if msgs:
            fails.append(dict(case=f"{seed}.{it}", checker="contracts.C10:nat_case", inputs=dict(seed=int(seed), it=it, count=count, only=only), what=f"assemblage {asm}: " + "; ".join(msgs[:3])))
    return dict(evaluations=ev, failures=fails[:5])


def nat_case(seed, it, count, only=None):
    r = nat_sweep(seed, count, only)
    hit = [f for f in r["failures"] if f["case"] == f"{seed}.{it}"]
    return dict(ok=not hit, failures=hit)
