"""C02 — solver rates equal the published D-Rex equations for every fabric and input.

Oracle: specs/drex_published.py (independent tensor-form transcription).  Modular proof: every helper
of pydrex.core against its spec, then _get_rotation_and_strain with the helpers under contract (chain of
per-call lemmas up to the oracle), then derivatives with symbolic n_grains.
"""
import numpy as np
import z3

from contracts import corelib as CL
from pv import engine as E
from pv import larr as LA
from pv import native
from pv import sym as S
from pv.facets import prove_entries
from pv.sym import Sym, sym, symarr
from pv.util import Z, alleq
from specs import drex_published as O

MOD = "pydrex.core"
INF = float("inf")


def run(run):
    run.assume("S-REAL", "S-PY", "S-NUMPY", "S-NUMBA", "A-POW", "A-SIGMA")
    core = CL.load()
    t_ok, r_ok, bad = CL.verify_get_crss(run, core)
    run.exact("get_crss == published CRSS table [6 valid pairs, exhaustive]", f"{MOD}.get_crss", t_ok,
              "A 1,2,3,inf; B 3,2,1,inf; C 3,2,inf,1; D 1,1,3,inf; E 3,1,2,inf; enstatite inf,inf,inf,1" + ("" if t_ok else f" -- differs: {bad[:3]}"),
              info=None if t_ok else dict(checker="contracts.corelib:nat_get_crss", inputs=dict(phase=bad[0][0], fabric=bad[0][1]), observed=str(bad[:3])))
    items = [("helpers", w) for w in ("invariants", "defrate", "softest", "orient", "slip_rates", "energy")] + [("grain", pr) for pr in CL.PAIRS] + [("derivatives",)]
    run.fork_map(_section, items)
    bounded(run)


def _section(run, item):
    core = CL.load()
    if item[0] == "helpers":
        CL.helper_facets(run, core, which=(item[1],))
    elif item[0] == "grain":
        grain_facets(run, core, item[1])
    else:
        derivatives_facets(run, core)


# ----------------------------------------------------------------------------- per-grain solver == oracle
def grain_facets(run, core, pair):
    """Chain of per-call lemmas: with sigma = {fresh result of a contract stub -> oracle expression over the inputs},
    each call's definition (the callee's `== spec` postcondition at the arguments actually passed), rewritten by sigma,
    must equal the oracle's own expression; then sigma is extended.  Control decisions of the path (activity order,
    activity switches, early return) must be the oracle's decisions for the same inputs."""
    ph, fb = pair
    name = CL.PAIR_NAMES[pair]
    fn = f"{MOD}._get_rotation_and_strain"
    tau = O.CRSS[pair]
    gr = CL.GrainRun(core, ph, fb, D_from_L=True)
    ex = gr.explore()
    if ex is None or not ex.complete:
        run.undecided(f"grain[{name}]", fn, "function not found / exploration incomplete" + ("" if ex is None else ": " + "; ".join(ex.unsupported[:2])))
        return
    run.paths += len(ex.paths)
    if not ex.paths:
        run.checker_failures.append(f"grain[{name}]: no feasible path")
    A, D, L, p, n, lam = (gr.args[k] for k in ("A", "D", "L", "p", "n", "lam"))
    rp = CL.replay_grain(ph, fb, gr.args, what="matches_published")
    conc = CL.concretisations(gr.args)
    nontrivial = 0
    for pi, pth in enumerate(ex.paths):
        tag = f"grain[{name}]/path{pi}"
        if pth.exc is not None:
            continue  # exceptions are C03's subject
        (dA, En), calls = pth.value
        kinds = [c[0] for c in calls]
        sc = E.Ctx(list(ex.ctx.hyps))
        E.Ctx.cur = sc
        sc.reset_path([])
        try:
            sigma = []

            def sub(t):
                return z3.substitute(t, *sigma) if sigma else t

            def bind(fresh, oracle):
                for a, b in zip(np.asarray(fresh, dtype=object).flat, np.asarray(oracle, dtype=object).flat):
                    sigma.append((S.zz(a), S.zz(b)))

            def H():
                return list(ex.ctx.hyps) + [sub(c) for c in pth.pc] + list(sc.pc)

            def Hmin():
                # definitional lemmas only need the non-zero facts of the path (for clearing denominators)
                nz = [sub(c) for c in pth.pc if z3.is_app(c) and c.decl().kind() == z3.Z3_OP_DISTINCT]
                return list(ex.ctx.hyps) + nz + list(sc.pc)

            def lemma(label, call, oracle):
                """sigma(definition of the call's result) == oracle expression, entry-wise."""
                goals = []
                for d, fr, o in zip(call[3], np.asarray(call[2], dtype=object).flat, np.asarray(oracle, dtype=object).flat):
                    rhs = sub(d.arg(0) if z3.eq(d.arg(1), S.zz(fr)) else d.arg(1))  # z3py may print/store `0 == x`
                    goals.append(E.eq_cleared(rhs, S.zz(o)))
                goal = z3.And(*goals) if len(goals) > 1 else goals[0]
                st = run.prove(f"{tag}/{label}", fn, Hmin(), goal, replay=rp, concretise=conc, detail=f"{label}: {len(goals)} entries, e.g. {E.brief(goals[0], 140)}")
                bind(call[2], oracle)
                return st

            I_o = O.invariants(A, D)
            ci = [c for c in calls if c[0] == "invariants"]
            if len(ci) != 1:
                run.undecided(f"{tag}", fn, "per-grain solver does not call the invariants contract exactly once: modular proof not applicable")
                continue
            lemma("invariants==oracle", ci[0], I_o)
            if "defrate" not in kinds:
                run.prove(f"{tag}/early-return only when no shear is resolved at all", fn, H(), z3.And(*[S.zz(v) == 0 for v in I_o]), replay=rp, concretise=conc)
                zero = all((not isinstance(v, Sym)) and v == 0 for v in np.asarray(dA, dtype=object).flat) and (not isinstance(En, Sym)) and En == 0
                run.exact(f"{tag}/early-return value is (0, 0)", fn, zero, "zero orientation rate and zero strain energy")
                continue
            nontrivial += 1
            run.prove(f"{tag}/normal path only when some shear is resolved", fn, H(), z3.Or(*[S.zz(v) != 0 for v in I_o]), replay=rp, concretise=conc)
            cd = [c for c in calls if c[0] == "defrate"][0]
            beta_code = cd[1][2]
            if ph == 0:
                cs = [c for c in calls if c[0] == "slip_rates"]
                if cs:
                    idx = cs[0][1][1]
                    act = [0 if tau[s_] == INF else abs(I_o[s_] / tau[s_]) for s_ in range(4)]
                    srt = z3.And(*[S.zz(act[idx[k]]) <= S.zz(act[idx[k + 1]]) for k in range(3)])
                    run.prove(f"{tag}/order {''.join(map(str, idx))} sorts the oracle's activities |I/tau|", fn, H(), srt, replay=rp, concretise=conc)
                    run.prove(f"{tag}/most active system resolves shear", fn, H(), S.zz(act[idx[3]]) != 0, replay=rp, concretise=conc)
                    sc.assume(S.zz(I_o[idx[3]]) != 0)
                    beta_o = O.slip_rates_olivine(tau, I_o, idx, n)
                    lemma("slip-rates==oracle", cs[0], beta_o)
                else:
                    beta_o = [0, 0, 0, 0]
                    run.prove(f"{tag}/zero slip rates only when no finite-CRSS system resolves shear", fn, H(),
                              z3.And(*[S.zz(I_o[s_]) == 0 for s_ in range(4) if tau[s_] != INF]), replay=rp, concretise=conc)
            else:
                bl = [v for v in np.asarray(beta_code, dtype=object).flat]
                if any(isinstance(v, Sym) for v in bl):
                    run.undecided(f"{tag}/enstatite slip rates", fn, "symbolic enstatite slip rates: not the documented 0/1 switch")
                    continue
                active = bl[3] == 1
                beta_o = [0, 0, 0, 1 if active else 0]
                cond = S.zz(abs(I_o[3])) > S.R(1e-15)
                run.prove(f"{tag}/enstatite (100)[001] active iff |I_3| > 1e-15", fn, H(), cond if active else z3.Not(cond), replay=rp, concretise=conc)
            okb = True
            for a, b in zip(np.asarray(beta_code, dtype=object).flat, beta_o):
                if isinstance(a, Sym) or isinstance(b, Sym):
                    okb = okb and z3.eq(z3.simplify(sub(S.zz(a))), z3.simplify(S.zz(b)))
                else:
                    okb = okb and (a == b)
            if okb:
                run.exact(f"{tag}/relative slip rates handed to the Schmid tensor == oracle's", fn, True, "beta passed to _get_deformation_rate")
            else:
                run.undecided(f"{tag}/relative slip rates handed to the Schmid tensor", fn, "not syntactically the slip-rate contract's result: modular chain not applicable on this path")
                continue
            G_t = _tensor_G(A, beta_o)
            lemma("schmid==oracle(tensor form)", cd, G_t)
            cso = [c for c in calls if c[0] == "softest"]
            if len(cso) != 1:
                run.undecided(f"{tag}/softest", fn, "softest-slip-rate contract not called exactly once")
                continue
            num_o, den_o = O.softest_rate(G_t, L)
            dz, nz = S.zz(den_o), S.zz(num_o)
            small = z3.And(dz > S.R(-1e-15), dz < S.R(1e-15))
            gam = cso[0][2]
            gdefs = [sub(d) for d in cso[0][3]]
            run.prove(f"{tag}/gamma==0 when Gs:Gs < 1e-15", fn, H() + gdefs + [small], gam.z == 0, replay=rp, concretise=conc)
            run.prove(f"{tag}/gamma*(Gs:Gs)==(Gs:Ls) otherwise", fn, H() + gdefs + [z3.Not(small)], gam.z * dz == nz, replay=rp, concretise=conc)
            # from here gamma is a symbol constrained by exactly the oracle's definition
            sc.assume(z3.Implies(small, gam.z == 0))
            sc.assume(z3.Implies(z3.Not(small), gam.z * dz == nz))
            co = [c for c in calls if c[0] == "orient"][0]
            lemma("rotation==oracle", co, O.spin_rotation(A, L, G_t, gam))
            same = all(z3.eq(S.zz(a), S.zz(b)) for a, b in zip(np.asarray(dA, dtype=object).flat, np.asarray(co[2], dtype=object).flat))
            if same:
                run.exact(f"{tag}/returned rotation rate is the contract's result", fn, True, "result[0] is what _get_orientation_change returned")
            else:
                prove_entries(run, f"{tag}/returned rotation rate == contract's result", fn, H() + [sub(d) for d in co[3]], dA, co[2], replay=rp)
            ce = [c for c in calls if c[0] == "energy"][0]
            lemma("energy==oracle", (ce[0], ce[1], [ce[2]], ce[3]), [O.strain_energy(tau, beta_o, gam, p, n, lam)])
            run.prove(f"{tag}/returned strain energy is the contract's result", fn, H(), S.zz(En) == S.zz(ce[2]), replay=rp, concretise=conc)
        finally:
            E.Ctx.cur = None
    if nontrivial == 0:
        run.undecided(f"grain[{name}]/modular proof", fn, "no path on which the helper contracts apply (helpers inlined or renamed): decided by the bounded stand-in only")


def _same(a, b, hyps):
    if not isinstance(a, Sym) and not isinstance(b, Sym):
        return a == b
    v = E.prove(hyps, S.zz(a) == S.zz(b), timeout_s=5)
    return v.status == "proved"


def _tensor_G(A, beta):
    G = None
    for s_, (l, nrm) in enumerate(O.SLIP):
        T = O._outer(A[l], A[nrm])
        C = np.empty((3, 3), dtype=object)
        for i in range(3):
            for j in range(3):
                C[i, j] = 2 * beta[s_] * T[i, j]
        G = C if G is None else G + C
    return G


def _prove(run, name, fn, H, lazy, est, fresh, oracle, rp, conc):
    goals = [E.eq_cleared(a, b) for a, b in zip(Z(fresh).flat, Z(oracle).flat)]
    goal = z3.And(*goals) if len(goals) > 1 else goals[0]
    return run.prove(name, fn, list(H) + list(est), goal, replay=rp, lazy=lazy, concretise=conc, detail=f"{name}: {len(goals)} entries, e.g. {E.brief(goals[0], 140)}")


# ----------------------------------------------------------------------------- derivatives (symbolic n)
def derivatives_facets(run, core):
    fn = f"{MOD}.derivatives"
    probs = CL.loop_rule_admissible(core.derivatives)
    if probs:
        run.undecided("derivatives/map-rule-admissible", fn, f"loop body carries locals across iterations {probs}")
        return
    for regime in (4, 6):
        damp = S.R(1.0) if regime == 4 else S.R(O.YIELD_DAMP)
        tag = f"derivatives[regime={regime}]"
        c = E.Ctx([])
        E.Ctx.cur = c
        try:
            c.reset_path([])
            dr = CL.DerivRun(core, core.DeformationRegime(regime), phase=0, fabric=0)
            try:
                dO, df = dr.run()
            except E.UNSUPPORTED_EXC as e:
                run.undecided(tag, fn, f"unsupported construct in the lifted run: {e}")
                continue
            G = LA.G
            H = list(c.hyps) + list(c.pc) + [dr.n.z >= 1, G >= 0, G < dr.n.z]
            calls = dr.grain_calls
            ok = len(calls) == 1
            if ok:
                cl = calls[0]
                gz = cl["g"].z
                ok = (all(z3.eq(S.zz(a), S.zz(b)) for a, b in zip(np.asarray(cl["orientation"], dtype=object).flat, np.asarray(dr.O.fn(gz), dtype=object).flat))
                      and cl["D"] is dr.D and cl["L"] is dr.L and cl["p"] is dr.p and cl["n"] is dr.nn and cl["lam"] is dr.lam
                      and int(cl["phase"]) == 0 and int(cl["fabric"]) == 0)
            run.exact(f"{tag}/per-grain solver called with (phase, fabric, A_g, D, L, p, n, lambda)", fn, ok, "argument wiring of the grain loop")
            if len(dr.sigma.sums) != 1:
                run.undecided(f"{tag}/mean energy", fn, f"{len(dr.sigma.sums)} sum symbols")
                continue
            (sname, summand), = dr.sigma.sums.items()
            S0 = z3.Real(sname)
            fG, EG = S.zz(dr.f.at(G)), S.zz(LA.uf("E")(G))
            run.prove(f"{tag}/mean energy == sum_g f_g E_g", fn, H, summand == fG * EG, structural=True)
            rate = S.zz(df.at(G))
            run.prove(f"{tag}/df_g == phi * M * f_g * damp * (mean - E_g), damp={damp}", fn, H, rate == dr.phi.z * dr.M.z * fG * damp * (S0 - EG), structural=True)
            dAG = LA.uf("dA", (3, 3))(G)
            prove_entries(run, f"{tag}/dO_g == damp * dA_g", fn, H, dO.at(G), S.ew(lambda v: v * Sym(damp), dAG))
        finally:
            E.Ctx.cur = None
            LA.Sigma.cur = None
            LA.LoopRule.cur = None


# ----------------------------------------------------------------------------- bounded stand-ins
def bounded(run):
    ncase = 480 if run.tier == "quick" else 6000 * run.tmul
    jobs = [dict(seed=run.seed * 7919 + k, count=ncase // 12) for k in range(12)]
    res, errs = native.pmap("contracts.C02", "nat_sweep", jobs)
    run.worker_errors(errs, len(jobs))
    ev = sum(r["evaluations"] for r in res if r and "_error" not in r)
    fails = [f for r in res if r and "_error" not in r for f in r["failures"]]
    run.bounded_result("compiled derivatives == published model (native)", f"{MOD}.derivatives",
                       f"{ev} random inputs over 6 fabrics x 2 regimes, generic and axis-aligned orientations, p,n,lambda,M*,phi in their ranges", ev, fails, ev)
    # JIT vs interpreted source (S-NUMBA stand-in)
    nj = 60 if run.tier == "quick" else 600 * run.tmul
    a = native.call("contracts.C02", "nat_outputs", dict(seed=run.seed, count=nj), jit=True)
    b = native.call("contracts.C02", "nat_outputs", dict(seed=run.seed, count=nj), jit=False)
    fails = []
    for k, (x, y) in enumerate(zip(a["out"], b["out"])):
        x, y = np.array(x), np.array(y)
        if x.shape != y.shape or not np.allclose(x, y, rtol=1e-10, atol=1e-12):
            fails.append(dict(case=k, checker="contracts.C02:nat_jit_case", inputs=dict(seed=run.seed, k=k), what=f"compiled and interpreted derivatives differ (max {np.abs(x - y).max():.2e})"))
    run.bounded_result("JIT-compiled == interpreted source (differential)", f"{MOD}.derivatives", f"{nj} random inputs", nj, fails, nj)


def _case(rng):
    ph, fb = CL.PAIRS[rng.integers(6)]
    regime = int(rng.choice([4, 6]))
    n = int(rng.choice([1, 2, 5, 12]))
    As = np.array([CL.random_orientation(rng) for _ in range(n)])
    if rng.random() < 0.3:
        P = np.eye(3)[rng.permutation(3)]
        if np.linalg.det(P) < 0:
            P[0] *= -1
        As[0] = P
    L = rng.normal(size=(3, 3))
    if rng.random() < 0.3:
        L -= np.trace(L) / 3 * np.eye(3)
    if rng.random() < 0.15:
        L = np.zeros((3, 3)); i, j = rng.choice(3, 2, replace=False); L[i, j] = 2.0
    D = (L + L.T) / 2
    em = np.abs(np.linalg.eigvalsh(D)).max()
    L, D = L / em, D / em
    f = rng.random(n); f /= f.sum()
    p, nn, lam = rng.uniform(1, 2), rng.uniform(2, 5), rng.uniform(0, 10)
    if rng.random() < 0.1:
        nn = float(rng.choice([2.0, 3.0, 4.0]))
    M, phi = rng.uniform(0, 200), rng.uniform(0.05, 1)
    return regime, ph, fb, n, As, f, D, L, p, nn, lam, M, phi


def nat_sweep(seed, count):
    import pydrex.core as c

    rng = np.random.default_rng(seed)
    failures, ev = [], 0
    for it in range(count):
        regime, ph, fb, n, As, f, D, L, p, nn, lam, M, phi = _case(rng)
        ev += 1
        try:
            dO, df = c.derivatives(regime, ph, fb, n, As, f, D, L, np.zeros((3, 3)), p, nn, lam, M, phi)
        except Exception as e:
            failures.append(dict(case=f"{seed}.{it}", checker="contracts.C02:nat_case", inputs=dict(seed=int(seed), it=it, count=count), what=f"raised {type(e).__name__}"))
            continue
        edO, edf = O.rates(regime, ph, fb, As, f, D, L, p, nn, lam, M, phi)
        if not (np.allclose(dO, edO, rtol=1e-9, atol=1e-11) and np.allclose(df, edf, rtol=1e-9, atol=1e-11 * max(1.0, np.abs(edf).max()))):
            failures.append(dict(case=f"{seed}.{it}", checker="contracts.C02:nat_case", inputs=dict(seed=int(seed), it=it, count=count),
                                 what=f"{CL.PAIR_NAMES[(ph, fb)]} regime {regime}: rates differ from the published model (dO {np.abs(dO - edO).max():.2e}, df {np.abs(df - edf).max():.2e})"))
    return dict(evaluations=ev, failures=failures[:5])


def nat_case(seed, it, count):
    r = nat_sweep(seed, count)
    hit = [f for f in r["failures"] if f["case"] == f"{seed}.{it}"]
    return dict(ok=not hit, failures=hit)


def nat_outputs(seed, count):
    import pydrex.core as c

    rng = np.random.default_rng(seed + 4242)
    out = []
    for it in range(count):
        regime, ph, fb, n, As, f, D, L, p, nn, lam, M, phi = _case(rng)
        try:
            dO, df = c.derivatives(regime, ph, fb, n, As, f, D, L, np.zeros((3, 3)), p, nn, lam, M, phi)
            out.append(np.concatenate([np.ravel(dO), np.ravel(df)]).tolist())
        except Exception as e:
            out.append([float("nan")])
    return dict(out=out)


def nat_jit_case(seed, k):
    return dict(ok=False, note="re-run ./check C02: the differential compares two interpreters")
