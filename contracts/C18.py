"""C18 — analytic flows are self-consistent and pathlines follow them inside the domain."""
import itertools

import numpy as np
import z3

from pv import diff as DF
from pv import engine as E
from pv import native
from pv import sym as S
from pv.sym import Sym, sym, symarr
from pv.util import real_module

MOD = "pydrex.velocity"
AXES = [("X", "Y"), ("X", "Z"), ("Y", "X"), ("Y", "Z"), ("Z", "X"), ("Z", "Y")]
IDX = {"X": 0, "Y": 1, "Z": 2}


def run(run):
    run.assume("S-REAL", "S-PY", "S-NUMPY", "S-NUMBA", "A-DIFF", "A-TRIG", "A-EIG")
    items = [(fam, ax) for fam in ("simple_shear_2d", "cell_2d", "corner_2d") for ax in AXES] + [("misc",)]
    run.fork_map(_section, items)
    bounded(run)


def _section(run, item):
    try:
        if item[0] == "misc":
            misc_facets(run)
        else:
            kernel_facets(run, item[0], item[1])
    except E.UNSUPPORTED_EXC as e:
        run.undecided(str(item), MOD, f"unsupported construct: {e}")
    except DF.NotDifferentiable as e:
        run.undecided(str(item), MOD, f"velocity is outside the differentiable term language: {e}")
    except (AttributeError, TypeError, KeyError, IndexError) as e:
        import traceback

        run.undecided(str(item), MOD, f"not interpretable: {type(e).__name__}: {e} @ {traceback.format_exc().splitlines()[-3].strip()[:100]}")
    finally:
        E.Ctx.cur = None


def kernel_facets(run, fam, ax):
    V = real_module(MOD)
    g = E.rebind_module(V)
    a, b = IDX[ax[0]], IDX[ax[1]]
    tag = f"{fam}[{ax[0]},{ax[1]}]"
    fn = f"{MOD}.{fam}"
    x = symarr("x", (3,))
    if fam == "simple_shear_2d":
        pars = (sym("eps"),)
        hy = []
        lab = ("d", "p")
    elif fam == "cell_2d":
        pars = (sym("U"), sym("dd"))
        hy = [pars[1].z > 0, z3.And(S.zz(x[a]) <= pars[1].z / 2, S.zz(x[a]) >= -pars[1].z / 2, S.zz(x[b]) <= pars[1].z / 2, S.zz(x[b]) >= -pars[1].z / 2)]
        lab = ("h", "v")
    else:
        pars = (sym("Up"),)
        hy = [z3.Or(S.zz(x[a]) != 0, S.zz(x[b]) != 0), z3.Or(z3.Or(S.zz(x[a]) >= S.R(1e-15), S.zz(x[a]) <= S.R(-1e-15)), z3.Or(S.zz(x[b]) >= S.R(1e-15), S.zz(x[b]) <= S.R(-1e-15)))]
        lab = ("h", "v")
    fv, fg = g.get("_" + fam), g.get("_" + fam + "_grad")
    if fv is None or fg is None:
        run.undecided(tag, fn, "kernel functions not found")
        return
    t = sym("t")

    def body():
        xx = symarr("x", (3,))
        return fv(t, xx, a, b, *pars), fg(t, xx, a, b, *pars)

    ex = E.explore(body, hyps=hy, max_paths=32)
    run.paths += len(ex.paths)
    if not ex.complete or not ex.paths:
        run.undecided(tag, fn, "exploration incomplete / no path: " + "; ".join(ex.unsupported[:2]))
        return
    rp = _rp_kernel(fam, ax, x, pars)
    normal = 0
    for pi, p in enumerate(ex.paths):
        H = list(ex.ctx.hyps) + list(p.pc)
        ptag = tag if len(ex.paths) == 1 else f"{tag}/path{pi}"
        if p.exc is not None:
            run.prove(f"{ptag}/no exception inside the domain", fn, H, z3.BoolVal(False), replay=rp, detail=f"raises {type(p.exc).__name__}: {str(p.exc)[:80]}")
            continue
        normal += 1
        u, L = p.value
        for k, o in enumerate(p.oblig):
            run.prove(f"{ptag}/safety.{o.name}#{k}", fn, list(ex.ctx.hyps) + list(o.pc), o.goal, replay=rp, kind="safety")
        u = np.asarray(u, dtype=object)
        L = np.asarray(L, dtype=object)
        if u.shape != (3,) or L.shape != (3, 3):
            run.exact(f"{ptag}/shapes", fn, False, f"{u.shape} {L.shape}")
            continue
        nonfin = [v for v in list(u.flat) + list(L.flat) if isinstance(v, (float, np.floating)) and not np.isfinite(v)]
        if nonfin:
            # a path that is feasible inside the domain returns NaN/inf constants: refuted unless the path is infeasible there
            run.prove(f"{ptag}/velocity and gradient are finite inside the domain", fn, H, z3.BoolVal(False), replay=rp, detail=f"returns the non-finite constant {nonfin[0]} on this path")
            continue
        tr = 0
        names = {a: lab[0], b: lab[1]}
        for i in range(3):
            for j in range(3):
                J = DF.d(S.zz(u[i]), S.zz(x[j]))
                nm = f"{tag}/grad[{names.get(i, 'o')},{names.get(j, 'o')}] == d u_{names.get(i, 'o')}/d x_{names.get(j, 'o')}" if (i in names and j in names) else f"{tag}/grad[{i},{j}] == d u_{i}/d x_{j} (out-of-plane)"
                if len(ex.paths) > 1:
                    nm += f" (path{pi})"
                run.prove(nm, fn, H, E.clear_formula(S.zz(L[i, j]) == J) if _has_div(J, L[i, j]) else S.zz(L[i, j]) == J, replay=rp)
            tr = tr + L[i, i]
        run.prove(f"{tag}/trace-free" + (f" (path{pi})" if len(ex.paths) > 1 else ""), fn, H, E.clear_formula(S.zz(tr) == 0), replay=rp)
        if run.tier == "thorough":
            _sympy_crosscheck(run, tag, fn, u, x)
        # characterisation of the recorded known findings, so that a *different* deviation is still reported
        if fam == "simple_shear_2d":
            run.prove(f"{tag}/known-form: grad[d,p] == 2 * d u_d/d x_p and nothing else deviates", fn, H, S.zz(L[a, b]) == 2 * DF.d(S.zz(u[a]), S.zz(x[b])), structural=True)
        if fam == "cell_2d":
            run.prove(f"{tag}/known-form: grad[v,h] == d u_v/d x_v and grad[v,v] == d u_v/d x_h (exchanged)", fn, H,
                      z3.And(S.zz(L[b, a]) == DF.d(S.zz(u[b]), S.zz(x[b])), S.zz(L[b, b]) == DF.d(S.zz(u[b]), S.zz(x[a]))), structural=True)
    if normal == 0:
        run.checker_failures.append(f"{tag}: no normal path inside the domain")
    if fam == "cell_2d":
        # domain guard: outside the cell both callables raise ValueError
        for which, f_ in (("velocity", fv), ("gradient", fg)):
            xs = symarr("x", (3,))
            hy_out = [pars[1].z > 0, z3.Or(S.zz(xs[a]) > pars[1].z / 2, S.zz(xs[a]) < -pars[1].z / 2, S.zz(xs[b]) > pars[1].z / 2, S.zz(xs[b]) < -pars[1].z / 2)]
            ex2 = E.explore(lambda: f_(t, symarr("x", (3,)), a, b, *pars), hyps=hy_out, max_paths=16)
            ok = bool(ex2.paths) and all(isinstance(p.exc, ValueError) for p in ex2.paths)
            run.exact(f"{tag}/{which}: ValueError for every position outside the cell", fn, ok and ex2.complete, f"{len(ex2.paths)} paths, exceptions {[type(p.exc).__name__ for p in ex2.paths]}")


def _has_div(J, Lij):
    return bool(E.denominators(J)) or (isinstance(Lij, Sym) and bool(E.denominators(Lij.z)))


def _rp_kernel(fam, ax, x, pars):
    def replay(model):
        kw = dict(flow=fam, axes=list(ax), x=[E.model_value(model, S.zz(v)) for v in x], params=[E.model_value(model, p.z) for p in pars])
        res = native.call("contracts.C18", "nat_kernel", kw)
        return (not res["ok"]), dict(checker="contracts.C18:nat_kernel", inputs=kw, observed=res, what=res.get("what", ""))

    return replay


def nat_kernel(flow, axes, x, params):
    """Real callables: gradient vs central finite differences of the velocity, and trace."""
    import pydrex.velocity as V

    x = np.array(x, float)
    params = [float(p) for p in params]
    if flow == "cell_2d" and (len(params) < 2 or params[1] <= 0):
        params = [params[0] if params else 1.0, 2.0]
    try:
        u, L = getattr(V, flow)(axes[0], axes[1], *params)
        Lx = np.asarray(L(np.nan, x))
        h = 1e-6 * max(1.0, np.abs(x).max())
        J = np.zeros((3, 3))
        for j in range(3):
            e = np.zeros(3); e[j] = h
            J[:, j] = (np.asarray(u(np.nan, x + e)) - np.asarray(u(np.nan, x - e))) / (2 * h)
    except Exception as ex:
        return dict(ok=False, what=f"raised {type(ex).__name__}: {ex}")
    if np.isfinite(J).all() and not np.isfinite(Lx).all():
        return dict(ok=False, what=f"gradient is not finite at {x.tolist()} although the velocity is differentiable there", L=str(Lx.tolist()), J=J.tolist())
    sc = max(1e-30, np.abs(J).max(), np.abs(Lx).max())
    bad = np.abs(Lx - J) > 1e-5 * sc
    msgs = []
    if bad.any():
        msgs.append(f"gradient differs from the Jacobian of the velocity at entries {np.argwhere(bad).tolist()}")
    if abs(np.trace(Lx)) > 1e-9 * sc:
        msgs.append(f"trace {np.trace(Lx):.3e}")
    return dict(ok=not msgs, what="; ".join(msgs), L=Lx.tolist(), J=J.tolist())


def misc_facets(run):
    G = real_module("pydrex.geometry")
    V = real_module(MOD)
    P = real_module("pydrex.pathlines")
    U = real_module("pydrex.utils")
    # to_indices2d table
    fn = "pydrex.geometry.to_indices2d"
    ok = True
    for a in "XYZxyz":
        for b in "XYZxyz":
            try:
                r = G.to_indices2d(a, b)
                exp = (IDX[a.upper()], IDX[b.upper()])
                ok = ok and a.upper() != b.upper() and tuple(r) == exp
            except ValueError:
                ok = ok and a.upper() == b.upper()
    for bad in (("X", "W"), ("", "Y"), ("XY", "Z")):
        try:
            G.to_indices2d(*bad)
            ok = False
        except ValueError:
            pass
        except Exception:
            ok = False
    run.exact("to_indices2d: the six ordered axis pairs (case-insensitive) map to their indices, anything else raises ValueError [exhaustive]", fn, ok, "36 letter pairs + malformed strings")
    # factories bind the indices of the letters
    for fam, extra in (("simple_shear_2d", (1.5,)), ("cell_2d", (1.5, 3.0)), ("corner_2d", (1.5,))):
        okf = True
        for ax in AXES:
            u, L = getattr(V, fam)(ax[0], ax[1], *extra)
            kws = [dict(f.keywords) for f in (u, L)]
            vals = [tuple(v for k, v in kw.items() if isinstance(v, (int, np.integer)) and not isinstance(v, bool))[:2] for kw in kws]
            okf = okf and all(v == (IDX[ax[0]], IDX[ax[1]]) for v in vals)
            okf = okf and getattr(u.func, "__name__", "") == "_" + fam and getattr(L.func, "__name__", "") == "_" + fam + "_grad"
        try:
            getattr(V, fam)("X", "X", *extra)
            okf = False
        except ValueError:
            pass
        run.exact(f"{fam}: factory binds the kernels to the indices of the axis letters; repeated letters raise ValueError", f"{MOD}.{fam}", okf, "all six ordered pairs")
    try:
        V.cell_2d("X", "Z", 1.0, -2.0)
        okn = False
    except ValueError:
        okn = True
    run.exact("cell_2d: negative edge length raises ValueError", f"{MOD}.cell_2d", okn, "")
    # strain increment under the eigenvalue contract
    fn = "pydrex.utils.strain_increment"
    ev = symarr("ev", (3,))
    seen = {}

    class LinalgStub:
        @staticmethod
        def eigvalsh(m):
            seen["arg"] = m
            return ev

    c = E.Ctx([])
    E.Ctx.cur = c
    c.reset_path([])
    g = E.rebind_module(U, np_shim=S.NPShim(extra={"linalg": LinalgStub}))
    Lm, dt = symarr("L", (3, 3)), sym("dt")
    out = g["strain_increment"](dt, Lm)
    want_arg = S.ew(lambda p, q: (p + q) / 2, Lm, Lm.T)
    from pv.facets import prove_entries

    prove_entries(run, "strain_increment: eigenvalues of the symmetric part (L + L^T)/2", fn, list(c.hyps), seen["arg"], want_arg)
    mx = S.SymArray(S.ew(abs, ev)).max()
    run.prove("strain_increment == |dt| * max |principal strain rate|", fn, list(c.hyps) + list(c.pc), S.zz(out) == S.zz(abs(dt) * mx), structural=True)
    E.Ctx.cur = None
    # pathline helpers: inside test and the ODE right-hand side / Jacobian
    fn = "pydrex.pathlines._is_inside"
    gp = E.rebind_module(P)
    lo, hi = symarr("lo", (3,)), symarr("hi", (3,))

    def body():
        return gp["_is_inside"](symarr("p", (3,)), lo, hi)

    ex = E.explore(body, hyps=[], max_paths=64)
    pz = symarr("p", (3,))
    inside = z3.And(*[z3.And(S.zz(pz[k]) >= S.zz(lo[k]), S.zz(pz[k]) <= S.zz(hi[k])) for k in range(3)])
    okk = ex.complete and bool(ex.paths)
    for pi, p in enumerate(ex.paths):
        if p.exc is not None:
            okk = False
            continue
        run.prove(f"_is_inside/path{pi}: result is (lo <= p <= hi component-wise)", fn, list(ex.ctx.hyps) + list(p.pc), inside if p.value else z3.Not(inside), structural=True)
    run.exact("_is_inside: explored completely", fn, okk, f"{len(ex.paths)} paths")
    for nm, which in (("_ivp_func", 0), ("_ivp_jac", 1)):
        calls = []
        u_ = lambda t_, x_: calls.append(("u", t_, x_)) or "VEL"
        L_ = lambda t_, x_: calls.append(("L", t_, x_)) or "GRAD"
        pin = np.array([0.5, 0.5, 0.5])
        r_in = getattr(P, nm)(-1.0, pin, u_, L_, np.zeros(3), np.ones(3))
        r_out = getattr(P, nm)(-1.0, np.array([2.0, 0.5, 0.5]), u_, L_, np.zeros(3), np.ones(3))
        ok = r_in == ("VEL", "GRAD")[which] and calls and calls[0][0] == ("u", "L")[which] and calls[0][2] is pin and np.all(np.asarray(r_out) == 0) and np.asarray(r_out).shape == ((3,), (3, 3))[which]
        run.exact(f"{nm}: the flow's {'velocity' if which == 0 else 'gradient'} at the point inside the box, zeros outside", f"pydrex.pathlines.{nm}", bool(ok), "")


# ----------------------------------------------------------------------------- bounded: pathlines
def bounded(run):
    cnt = 48 if run.tier == "quick" else 600 * run.tmul
    jobs = [dict(seed=run.seed * 29 + k, count=cnt // 8) for k in range(8)]
    res, errs = native.pmap("contracts.C18", "nat_pathlines", jobs)
    run.worker_errors(errs, len(jobs))
    ev = sum(r["evaluations"] for r in res if r and "_error" not in r)
    fails = [f for r in res if r and "_error" not in r for f in r["failures"]]
    known = [f for f in fails if f.get("known")]
    fails = [f for f in fails if not f.get("known")]
    if known:
        kf = [k for k in run.known if k.get("bounded") == "pathline-rootfinder"]
        if kf:
            for f in known[:1]:
                run.known_hits.append((kf[0], f"get_pathline root-finder ValueError at final location {f['inputs'].get('final')} ({len(known)} of {ev} pathlines)"))
        else:
            fails += known
    run.bounded_result("pathlines of the three flows: end at the requested point at t = 0, increasing timestamps, dx/dt = u, inside the box, accumulated strain <= 1.25 max; kernels vs finite differences at random points; strain increments",
                       "pydrex.pathlines.get_pathline", f"{ev} final locations / boxes / strain limits / step counts", ev, fails, ev)


def nat_pathlines(seed, count):
    import warnings

    warnings.filterwarnings("ignore")
    import pydrex.pathlines as P
    import pydrex.utils as U
    import pydrex.velocity as V

    rng = np.random.default_rng(seed)
    fails, ev = [], 0
    import copy

    def mod_state():
        return {f"{m.__name__}.{k}": copy.deepcopy(v) for m in (P, U, V) for k, v in vars(m).items() if isinstance(v, (dict, list, set)) and not k.startswith("__")}

    state0 = mod_state()
    for it in range(count):
        fam = ("simple_shear_2d", "cell_2d", "corner_2d")[it % 3]
        ax = AXES[rng.integers(6)]
        a, b = IDX[ax[0]], IDX[ax[1]]
        ev += 1
        msgs, known = [], False
        try:
            if fam == "simple_shear_2d":
                u, L = V.simple_shear_2d(ax[0], ax[1], float(rng.choice([1.0, 5e-6])))
                lo, hi = -np.ones(3), np.ones(3)
            elif fam == "cell_2d":
                dd = float(rng.choice([2.0, 1e5]))
                u, L = V.cell_2d(ax[0], ax[1], float(rng.choice([1.0, 6.3e-10])), dd)
                lo, hi = -np.full(3, dd / 2), np.full(3, dd / 2)
            else:
                u, L = V.corner_2d(ax[0], ax[1], float(rng.choice([1.0, 2e-9])))
                lo, hi = np.zeros(3), np.zeros(3)
                lo[a], hi[a], lo[b], hi[b] = 0.0, 2.0, -1.0, 0.0
            oop = 3 - a - b
            final = np.zeros(3)
            final[a] = rng.uniform(lo[a] + 0.05 * (hi[a] - lo[a]), hi[a] - 0.05 * (hi[a] - lo[a]))
            final[b] = rng.uniform(lo[b] + 0.05 * (hi[b] - lo[b]), hi[b] - 0.05 * (hi[b] - lo[b]))
            lo[oop], hi[oop] = -1.0, 1.0
            # kernel consistency at this point (finite differences) -- the recorded findings are excluded
            r = nat_kernel(fam, list(ax), final.tolist(), [1.0] if fam != "cell_2d" else [1.0, float(hi[a] - lo[a])])
            if fam == "corner_2d" and not r["ok"]:
                msgs.append("corner flow: " + r["what"])
            max_strain = float(rng.choice([0.5, 2.0, 10.0]))
            steps = [None, 10, 50][rng.integers(3)]
            try:
                lo_in, hi_in, fin_in = lo.copy(), hi.copy(), final.copy()
                ts, sol = P.get_pathline(fin_in, u, L, lo_in, hi_in, max_strain, regular_steps=steps)
                probe_t = [float(ts[0]), float((ts[0] + ts[-1]) / 2), 0.0]
                probe = [np.array(sol(t_), copy=True) for t_ in probe_t]
                lo_in += 100.0; hi_in += 100.0; fin_in[:] = 7.0  # the caller reuses its buffers
                if not all(np.array_equal(sol(t_), p_) for t_, p_ in zip(probe_t, probe)):
                    msgs.append("the returned pathline changes when the caller later modifies the arrays it passed in (aliasing)")
            except ValueError as e:
                if "different signs" in str(e):
                    known = True
                    raise
                raise
            ts = np.asarray(ts)
            ext = hi - lo
            if not (np.all(np.diff(ts) > 0) and abs(ts[-1]) < 1e-300):
                msgs.append("timestamps not strictly increasing to 0")
            if np.abs(sol(0.0) - final).max() > 1e-6 * ext.max():
                msgs.append("pathline does not end at the requested location at t = 0")
            tt = np.linspace(ts[0], ts[-1], 60)
            pos = np.array([sol(t_) for t_ in tt])
            if np.any(pos < lo - 1e-3 * ext) or np.any(pos > hi + 1e-3 * ext):
                msgs.append("pathline leaves the domain box")
            dtt = (ts[-1] - ts[0]) * 1e-5
            if dtt > 0:
                for t_ in tt[5:-5:10]:
                    vel = (sol(t_ + dtt) - sol(t_ - dtt)) / (2 * dtt)
                    uu = np.asarray(u(np.nan, sol(t_)))
                    if np.all(np.isfinite(uu)) and np.abs(vel - uu).max() > 2e-2 * max(np.abs(uu).max(), 1e-300):
                        msgs.append(f"dx/dt differs from u(x) by {np.abs(vel - uu).max() / max(np.abs(uu).max(), 1e-300):.2e} (relative)")
                        break
            tq = np.linspace(ts[0], ts[-1], 400)
            acc = 0.0
            for t0_, t1_ in zip(tq[:-1], tq[1:]):
                acc += U.strain_increment(t1_ - t0_, np.asarray(L(np.nan, sol((t0_ + t1_) / 2))))
            if acc > 1.25 * max_strain * (1 + 1e-3):
                msgs.append(f"accumulated strain {acc:.3f} > 1.25 x {max_strain}")
            # no dependence on call history: a call with other solver options in between, then the same call again
            if it % 4 == 0:
                try:
                    P.get_pathline(final, u, L, lo, hi, max_strain, regular_steps=steps, rtol=3e-2, atol=3e-2)
                except Exception:
                    pass
                ts2, sol2 = P.get_pathline(final, u, L, lo, hi, max_strain, regular_steps=steps)
                if not (np.array_equal(np.asarray(ts2), ts) and all(np.array_equal(sol2(t_), sol(t_)) for t_ in tt[::12])):
                    msgs.append("the same get_pathline call gives a different pathline after a call with other solver options (state carried between calls)")
            Lr = rng.normal(size=(3, 3)); dt_ = float(rng.normal())
            if abs(U.strain_increment(dt_, Lr) - abs(dt_) * np.abs(np.linalg.eigvalsh((Lr + Lr.T) / 2)).max()) > 1e-12:
                msgs.append("strain_increment != |dt| max|eig(sym L)|")
        except Exception as e:
            msgs.append(f"raised {type(e).__name__}: {str(e)[:100]}")
        if msgs:
            fails.append(dict(case=f"{seed}.{it}", checker="contracts.C18:nat_path_case", inputs=dict(seed=int(seed), it=it, count=count, final=[round(float(v), 6) for v in final], flow=fam, axes=list(ax)),
                              what=f"{fam}{ax}: " + "; ".join(msgs[:3]), known=known))
    now = mod_state()
    if now != state0:
        ch = [k for k in now if now[k] != state0.get(k)]
        fails.append(dict(case=f"{seed}.state", checker="contracts.C18:nat_path_case", inputs=dict(seed=int(seed), it=-1, count=count), known=False,
                          what=f"module-level state changed by the calls: {ch[:3]} (a later call can depend on an earlier one)"))
    return dict(evaluations=ev, failures=fails[:8])


def nat_path_case(seed, it, count, **kw):
    r = nat_pathlines(seed, count)
    hit = [f for f in r["failures"] if f["case"] == (f"{seed}.{it}" if it >= 0 else f"{seed}.state")]
    return dict(ok=not hit, failures=hit)


def _sympy_crosscheck(run, tag, fn, u, x):
    """A-DIFF cross-check (thorough tier): the structural derivative agrees with sympy.diff at random rational points."""
    import random

    import sympy as sp

    rnd = random.Random(7)
    ok, detail = True, ""
    try:
        for i in range(3):
            ui = u[i]
            if not isinstance(ui, Sym):
                continue
            env = {}
            e = DF.to_sympy(ui.z, env)
            for j in range(3):
                xs = env.get(f"x_{j}")
                ours = DF.to_sympy(DF.d(ui.z, S.zz(x[j])), env)
                theirs = sp.diff(e, xs) if xs is not None else sp.Integer(0)
                for _ in range(3):
                    vals = {sy: sp.Rational(rnd.randint(-9, 9) or 1, rnd.randint(2, 9)) for sy in env.values()}
                    a, b = sp.N(ours.subs(vals), 30), sp.N(theirs.subs(vals), 30)
                    if abs(a - b) > sp.Float("1e-20") * (1 + abs(b)):
                        ok, detail = False, f"d u_{i}/d x_{j}: {a} vs sympy {b}"
    except Exception as ex:
        run.undecided(f"{tag}/A-DIFF cross-check with sympy", fn, f"{type(ex).__name__}: {ex}")
        return
    run.exact(f"{tag}/A-DIFF cross-check: structural derivative == sympy.diff at random rational points", fn, ok, detail or "9 partial derivatives x 3 points")
