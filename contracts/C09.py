"""C09 — grain-boundary sliding: small grains are floored and do not rotate."""
from contracts import gbslib as GL
from contracts import updfacets as UF
from pv import native


def run(run):
    run.assume("S-REAL", "S-PY", "S-NUMPY", "S-NUMBA", "A-SIGMA", "A-LSODA")
    GL.gbs_facets(run, which=("C09",))
    GL.extract_facets(run)
    UF.c09_glue(run)
    # bounded stand-ins
    per = 400 if run.tier == "quick" else 5000 * run.tmul
    jobs = [dict(seed=run.seed * 31 + k, count=per // 8) for k in range(8)]
    res, errs = native.pmap("contracts.gbslib", "nat_gbs_search", jobs)
    run.worker_errors(errs, len(jobs))
    ev = sum(r["evaluations"] for r in res if r and "_error" not in r)
    fails = [f for r in res if r and "_error" not in r for f in r["failures"]]
    run.bounded_result("compiled apply_gbs: all clauses on generated inputs (ties at the threshold, zero volumes, chi = 0)", "pydrex.utils.apply_gbs", f"{ev} inputs, n in 1..400", ev, fails, ev)
    per = 2 if run.tier == "quick" else 20 * run.tmul
    jobs = [dict(seed=run.seed, start=k * per, count=per) for k in range(12)]
    res, errs = native.pmap("contracts.scenarios", "run_gbs_scenarios", jobs)
    run.worker_errors(errs, len(jobs))
    ev = sum(r["evaluations"] for r in res if r and "_error" not in r)
    fails = [f for r in res if r and "_error" not in r for f in r["failures"]]
    run.bounded_result("real updates in which grains shrink through the threshold: floored grains keep their start-of-update orientation", UF.FN, f"{ev} update histories (1-10 updates, chi in 0/0.3/0.5/0.9, n in 16/40/120)", ev, fails, ev)
