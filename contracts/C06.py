"""C06 — the returned deformation gradient is the solution of dF/dt = L.F."""
from contracts import updfacets as UF
from contracts.bounded_upd import run_bounded


def run(run):
    run.assume("S-REAL", "S-PY", "S-NUMPY", "A-LSODA", "A-EIG")
    UF.c06_facets(run)
    UF.callee_frames(run)
    UF.update_all_facets(run)
    run.note("det F = exp(int tr L) and split-interval composition are consequences of the ODE (Liouville / semigroup property), cited not proved")
    run_bounded(run, ["C06", "C08"], "returned F vs DOP853 reference (rtol 1e-11), all scenarios; bulk update returns the same F", UF.FN)
