"""C07 — null forcing leaves the texture unchanged; unsupported regimes are rejected."""
import numpy as np
import z3

from contracts import corelib as CL
from contracts import gbslib as GL
from contracts import updfacets as UF
from pv import engine as E
from pv import larr as LA
from pv import native
from pv import sym as S

MOD = "pydrex.core"


def run(run):
    run.assume("S-REAL", "S-PY", "S-NUMPY", "S-NUMBA", "A-SIGMA", "A-LSODA", "A-EIG")
    core = CL.load()
    dispatch_facets(run, core)
    t_ok, r_ok, bad = CL.verify_get_crss(run, core)
    run.exact("get_crss raises ValueError for every invalid or mismatched (phase, fabric) [ordinals -2..4 x -2..8, exhaustive]", f"{MOD}.get_crss", r_ok,
              "only the six documented pairs are accepted" + ("" if r_ok else f" -- accepted/other exception: {bad[:3]}"),
              info=None if r_ok else dict(checker="contracts.corelib:nat_get_crss", inputs=dict(phase=bad[0][0], fabric=bad[0][1]), observed=str(bad[:3])))
    UF.c07_null(run)
    UF.regime_glue(run)
    UF.c01_frame(run)
    GL.gbs_facets(run, which=("C07",))
    per = 1 if run.tier == "quick" else 8 * run.tmul
    jobs = [dict(seed=run.seed, start=k * per, count=per) for k in range(12)]
    res, errs = native.pmap("contracts.scenarios", "run_null_scenarios", jobs)
    run.worker_errors(errs, len(jobs))
    ev = sum(r["evaluations"] for r in res if r and "_error" not in r)
    fails = [f for r in res if r and "_error" not in r for f in r["failures"]]
    if errs:
        run.note(f"worker errors {errs[:2]}")
    run.bounded_result("real updates: viscosity-bound regimes, L = 0, rigid rotation, M* = 0, rejected regimes and pairs (zero and non-zero L), failed updates leave history untouched",
                       UF.FN, f"{ev} scenario groups x ~25 updates each", ev, fails, ev)


def dispatch_facets(run, core):
    fn = f"{MOD}.derivatives"
    G = LA.G
    for regime in range(-1, 10):
        if regime in (4, 6):
            continue
        c = E.Ctx([])
        E.Ctx.cur = c
        try:
            c.reset_path([])
            dr = CL.DerivRun(core, regime)
            try:
                out = dr.run()
                exc = None
            except ValueError as e:
                out, exc = None, e
            except E.UNSUPPORTED_EXC as e:
                run.undecided(f"derivatives[regime={regime}] dispatch", fn, f"unsupported construct: {e}")
                continue
            except Exception as e:
                out, exc = None, e
            if regime in (0, 7):
                ok = exc is None and isinstance(out[0], LA.LArr) and isinstance(out[1], LA.LArr) and out[0].inner == (3, 3) and out[1].inner == ()
                if ok:
                    with S.quiet():
                        vals = list(np.asarray(out[0].fn(G), dtype=object).flat) + [out[1].fn(G)]
                    ok = all((not isinstance(v, S.Sym) and v == 0) or (isinstance(v, S.Sym) and z3.is_true(z3.simplify(v.z == 0))) for v in vals)
                run.exact(f"derivatives[regime={regime}]: both rates identically zero with shapes (n,3,3), (n,)", fn, ok, "viscosity-bound regime has no texture-forming mechanism" + ("" if exc is None else f" -- raised {exc}"),
                          info=None if ok else dict(checker="contracts.C07:nat_dispatch", inputs=dict(regime=regime)))
            elif regime == 1:
                ok = exc is None
                if ok:
                    with S.quiet():
                        v = out[1].fn(G)
                    ok = (not isinstance(v, S.Sym) and v == 0)
                run.exact("derivatives[regime=1 (matrix_diffusion)]: supported, zero volume rates", fn, ok, "passive rotation only")
            else:
                ok = isinstance(exc, ValueError)
                run.exact(f"derivatives[regime={regime}]: ValueError (unsupported or invalid regime)", fn, ok, f"got {type(exc).__name__ if exc else 'a result'}",
                          info=None if ok else dict(checker="contracts.C07:nat_dispatch", inputs=dict(regime=regime)))
        finally:
            E.Ctx.cur = None
            LA.Sigma.cur = None
            LA.LoopRule.cur = None
    # M* = 0 => zero volume rates (dislocation regimes): C03's facet on the lifted run
    for regime in (4, 6):
        c = E.Ctx([])
        E.Ctx.cur = c
        try:
            c.reset_path([])
            dr = CL.DerivRun(core, core.DeformationRegime(regime))
            dO, df = dr.run()
            run.prove(f"derivatives[regime={regime}]: zero mobility => zero volume rates", fn, [dr.M.z == 0], S.zz(df.at(G)) == 0, structural=True)
        except E.UNSUPPORTED_EXC as e:
            run.undecided(f"derivatives[regime={regime}] M*=0", fn, str(e))
        finally:
            E.Ctx.cur = None
            LA.Sigma.cur = None
            LA.LoopRule.cur = None


def nat_dispatch(regime):
    import pydrex.core as c

    n = 3
    As = np.array([np.eye(3)] * n)
    f = np.full(n, 1 / 3)
    L = np.zeros((3, 3)); L[0, 1] = 2.0
    D = (L + L.T) / 2
    try:
        dO, df = c.derivatives(regime, 0, 0, n, As, f, D, L, np.zeros((3, 3)), 1.5, 3.5, 5.0, 125.0, 1.0)
    except ValueError:
        return dict(ok=regime not in (0, 1, 4, 6, 7), raised="ValueError")
    except Exception as e:
        return dict(ok=False, raised=type(e).__name__)
    if regime in (0, 7):
        return dict(ok=bool(np.all(dO == 0) and np.all(df == 0) and dO.shape == (n, 3, 3) and df.shape == (n,)), dO=np.asarray(dO).tolist())
    return dict(ok=regime in (1, 4, 6))
