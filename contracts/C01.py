"""C01 — every stored texture snapshot is a valid texture, after any update history.

Representation invariant well_formed(m), preserved by every update: extract_vars / apply_gbs contracts for symbolic
n_grains, append-only frame of update_orientations, default construction.  The drift bound on orthonormality is a
statement about LSODA's accuracy: bounded stand-in only.
"""
import numpy as np
import z3

from contracts import gbslib as GL
from contracts import updfacets as UF
from contracts.bounded_upd import run_bounded
from pv import engine as E
from pv import larr as LA
from pv import native
from pv import sym as S
from pv.sym import SymInt
from pv.util import real_module


def run(run):
    run.assume("S-REAL", "S-PY", "S-NUMPY", "S-NUMBA", "A-SIGMA", "A-LSODA", "A-RNG")
    GL.extract_facets(run)
    GL.gbs_facets(run, which=("C01",))
    UF.c01_frame(run)
    UF.callee_frames(run)
    UF.regime_glue(run)
    UF.c09_glue(run)
    UF.rhs_safety(run)
    post_init_facets(run)
    run.note("orthonormality to first order is C03's skew facet; the accumulated drift bound is LSODA accuracy (bounded stand-in)")
    run_bounded(run, ["C01"], "every stored snapshot valid (finite, >= 0, sum 1, entries in [-1,1], drift bound, right-handed), append-only history", UF.FN)
    res = native.call("contracts.C01", "nat_default_init", dict(seed=run.seed))
    run.bounded_result("default-constructed mineral: valid initial snapshot, reproducible from its seed", "pydrex.minerals.Mineral.__post_init__", f"{res['evaluations']} (n_grains, seed) pairs", res["evaluations"], res["failures"], res["evaluations"])


def post_init_facets(run):
    """Mineral.__post_init__ with symbolic n_grains, every branch (the band-width switch at 4632 grains included): default
    fractions are n copies of 1/n (sum 1 by law CONST)."""
    M = real_module("pydrex.minerals")
    fn = "pydrex.minerals.Mineral.__post_init__"
    n = SymInt(z3.Int("n"))
    seed = object()

    def body():
        calls = []

        class RotStub:
            @staticmethod
            def random(num, random_state=None):
                calls.append((num, random_state))

                class R:
                    def as_matrix(s):
                        return LA.larr("R0", n, (3, 3))

                return R()

        class Shim(LA.NPLift):
            def full(self, shape, v, *a, **k):
                if isinstance(shape, SymInt):
                    return LA.LArr(shape, (), lambda i, v=v: v)
                return super().full(shape, v, *a, **k)

        class LogStub:
            def __getattr__(s, k):
                return lambda *a, **kk: None

        g = dict(M.__dict__)
        g.update(np=Shim(), Rotation=RotStub, _log=LogStub())
        pi = E.rebind_function(M.Mineral.__post_init__, g)
        m = M.Mineral.__new__(M.Mineral)
        m.__dict__.update(phase=0, fabric=0, regime=4, n_grains=n, fractions_init=None, orientations_init=None, fractions=[], orientations=[], seed=seed, lband=None, uband=None)
        pi(m)
        return m, calls

    try:
        ex = E.explore(body, hyps=[n.z >= 1], max_paths=16)
        run.paths += len(ex.paths)
        if not ex.complete or not ex.paths or ex.unsupported:
            run.undecided("__post_init__", fn, "exploration incomplete: " + "; ".join(ex.unsupported[:2]))
            return
        G = LA.G
        for pi_, p in enumerate(ex.paths):
            tag = "__post_init__" if len(ex.paths) == 1 else f"__post_init__/path{pi_}"
            if p.exc is not None:
                run.prove(f"{tag}/does not raise", fn, list(ex.ctx.hyps) + list(p.pc), z3.BoolVal(False), structural=True, detail=f"{type(p.exc).__name__}: {p.exc}")
                continue
            m, calls = p.value
            ok = len(m.fractions) == 1 and len(m.orientations) == 1 and "fractions_init" not in m.__dict__ and "orientations_init" not in m.__dict__
            run.exact(f"{tag}/one initial snapshot in each list, *_init attributes deleted", fn, ok, f"{len(m.fractions)}/{len(m.orientations)} snapshots")
            f0 = m.fractions[0]
            H = list(ex.ctx.hyps) + list(p.pc) + [G >= 0, G < n.z]
            for k, o in enumerate(p.oblig):
                run.prove(f"{tag}/safety.{o.name}#{k}", fn, list(ex.ctx.hyps) + list(o.pc), o.goal, structural=True, kind="safety")
            if isinstance(f0, LA.LArr):
                v = S.zz(GL._at(f0, G))
                run.prove(f"{tag}/default fraction of every grain is 1/n > 0", fn, H, E.clear_formula(z3.And(v * z3.ToReal(n.z) == 1, v > 0)), structural=True)
                run.exact(f"{tag}/CONST: summand free of g", fn, LA.Sigma.free_of_g(v), "constant summand: SUM == n * (1/n)")
                SUMf = z3.Real("SUMf0")
                run.prove(f"{tag}/default fractions sum to 1", fn, H + [SUMf == z3.ToReal(n.z) * v], E.clear_formula(SUMf == 1), structural=True, detail="law CONST: SUM == n*(1/n) == 1")
            else:
                run.undecided(f"{tag}/default fractions", fn, "not a per-grain constant")
            okr = len(calls) == 1 and isinstance(calls[0][0], SymInt) and z3.eq(calls[0][0].z, n.z) and calls[0][1] is seed
            run.exact(f"{tag}/random orientations drawn for n_grains with the mineral's seed", fn, okr, "Rotation.random(self.n_grains, random_state=self.seed)")
    finally:
        E.Ctx.cur = None


def nat_default_init(seed):
    import pydrex

    fails, ev = [], 0
    for n in (2, 3, 17, 100):
        for sd in (0, 1, seed + 7, 12345):
            ev += 1
            a = pydrex.Mineral(n_grains=n, seed=sd)
            b = pydrex.Mineral(n_grains=n, seed=sd)
            msgs = []
            O, f = np.asarray(a.orientations[0]), np.asarray(a.fractions[0])
            if O.shape != (n, 3, 3) or f.shape != (n,):
                msgs.append("shapes")
            else:
                if abs(f.sum() - 1) > 1e-12 or f.min() < 0:
                    msgs.append("fractions not on the simplex")
                if np.abs(np.einsum("gij,gkj->gik", O, O) - np.eye(3)).max() > 1e-12 or np.linalg.det(O).min() <= 0 or np.abs(O).max() > 1:
                    msgs.append("initial orientations are not proper rotations with entries in [-1,1]")
                if not (np.array_equal(O, b.orientations[0]) and np.array_equal(f, b.fractions[0])):
                    msgs.append(f"seed={sd}: initial snapshot not reproducible")
            if msgs:
                fails.append(dict(case=f"{n}.{sd}", checker="contracts.C01:nat_default_init", inputs=dict(seed=seed), what="; ".join(msgs)))
    return dict(evaluations=ev, failures=fails[:3], ok=not fails)
