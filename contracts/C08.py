"""C08 — multiphase: each phase evolves independently with its own volume factor."""
from contracts import updfacets as UF
from contracts.bounded_upd import run_bounded


def run(run):
    run.assume("S-REAL", "S-PY", "S-NUMPY", "A-LSODA")
    UF.c08_facets(run)
    UF.callee_frames(run)
    UF.hidden_state_scan(run)
    UF.update_all_facets(run)
    _phi_product(run)
    run_bounded(run, ["C08"], "paired single-/multi-phase runs, permuted assemblages, both list orders, twins", UF.FN)


def _phi_product(run):
    """The solver uses the phase fraction only through the product phi*M* (C03 linearity facets)."""
    import z3

    from contracts import corelib as CL
    from pv import engine as E
    from pv import larr as LA
    from pv import sym as S

    core = CL.load()
    fn = "pydrex.core.derivatives"
    for regime in (4, 6):
        c = E.Ctx([])
        E.Ctx.cur = c
        try:
            c.reset_path([])
            dr = CL.DerivRun(core, core.DeformationRegime(regime))
            dO, df = dr.run()
            G = LA.G
            rate = S.zz(df.at(G))
            a, b = z3.Real("a!"), z3.Real("b!")
            # rate(M, phi) depends on (M, phi) only through M*phi: rate(M*a, phi/a) == rate(M, phi) for a != 0
            lhs = z3.substitute(rate, (dr.M.z, dr.M.z * a), (dr.phi.z, dr.phi.z * b))
            run.prove(f"derivatives[regime={regime}]: volume rates depend on mobility and phase fraction only through their product", fn, [a * b == 1], lhs == rate, structural=True)
            names = UF._names_any(dO.at(G))
            run.exact(f"derivatives[regime={regime}]: orientation rates mention neither mobility nor phase fraction", fn, not ({"M", "phi"} & names), f"{sorted(names)[:6]}")
        except E.UNSUPPORTED_EXC as e:
            run.undecided(f"derivatives[regime={regime}] phi*M", fn, str(e))
        finally:
            E.Ctx.cur = None
            LA.Sigma.cur = None
            LA.LoopRule.cur = None
