"""Bounded stand-ins for the update cone: real Mineral.update_orientations / update_all (compiled, real LSODA)
on generated scenarios.  Every function here runs in the native worker.  Bounded, never counted as proved.

A scenario is generated from (seed, index); `clauses` selects which property clauses are evaluated.
"""
import numpy as np

PAIRS = [(0, 0), (0, 1), (0, 2), (0, 3), (0, 4), (1, 5)]


def rot(rng):
    q = rng.normal(size=4)
    q /= np.linalg.norm(q)
    a, b, c, d = q
    return np.array([[a * a + b * b - c * c - d * d, 2 * (b * c - a * d), 2 * (b * d + a * c)],
                     [2 * (b * c + a * d), a * a - b * b + c * c - d * d, 2 * (c * d - a * b)],
                     [2 * (b * d - a * c), 2 * (c * d + a * b), a * a - b * b - c * c + d * d]])


def make_L(rng, kind):
    """Velocity-gradient field L(t, x) and a label; scaled to unit-order strain rate."""
    if kind == "simple":
        L0 = np.zeros((3, 3)); i, j = rng.choice(3, 2, replace=False); L0[i, j] = 2.0
        return (lambda t, x: L0), L0
    if kind == "pure":
        L0 = np.diag([1.0, -1.0, 0.0])[rng.permutation(3)][:, rng.permutation(3)]
        L0 = np.diag(np.diag(L0)) if abs(np.trace(L0)) < 1e-12 else np.diag([1.0, -1.0, 0.0])
        return (lambda t, x: L0), L0
    if kind == "axisym":
        L0 = np.diag([1.0, -0.5, -0.5])
        Q = rot(rng)
        L0 = Q @ L0 @ Q.T
        return (lambda t, x: L0), L0
    if kind == "general":
        L0 = rng.normal(size=(3, 3)); L0 -= np.trace(L0) / 3 * np.eye(3)
        L0 /= np.abs(np.linalg.eigvalsh((L0 + L0.T) / 2)).max()
        return (lambda t, x: L0), L0
    if kind == "trace":
        L0 = rng.normal(size=(3, 3))
        L0 /= np.abs(np.linalg.eigvalsh((L0 + L0.T) / 2)).max()
        return (lambda t, x: L0), L0
    if kind == "staged":
        # shear, then a rigid rotation stage, then shear again (piecewise constant in time)
        Ls = np.zeros((3, 3)); i, j = rng.choice(3, 2, replace=False); Ls[i, j] = 2.0
        w = rng.normal(size=3)
        W = np.array([[0, -w[2], w[1]], [w[2], 0, -w[0]], [-w[1], w[0], 0]])
        return (lambda t, x: Ls if (t < 0.25 or t > 0.6) else W), Ls
    if kind == "timedep":
        L0 = rng.normal(size=(3, 3)); L0 -= np.trace(L0) / 3 * np.eye(3)
        L1 = rng.normal(size=(3, 3)); L1 -= np.trace(L1) / 3 * np.eye(3)
        s = np.abs(np.linalg.eigvalsh((L0 + L0.T) / 2)).max()
        L0, L1 = L0 / s, L1 / s * 0.5
        return (lambda t, x: L0 + np.sin(2.0 * t) * L1 + 0.3 * x[0] * L1), L0
    if kind == "fastosc":
        # rapidly oscillating history: one update needs thousands of internal solver steps
        L0 = rng.normal(size=(3, 3)); L0 -= np.trace(L0) / 3 * np.eye(3)
        L1 = rng.normal(size=(3, 3)); L1 -= np.trace(L1) / 3 * np.eye(3)
        s = np.abs(np.linalg.eigvalsh((L0 + L0.T) / 2)).max()
        L0, L1 = L0 / s, L1 / s * 0.5
        return (lambda t, x: L0 + np.sin(300.0 * t) * L1), L0
    raise ValueError(kind)


def make_texture(rng, n, kind):
    if kind == "random":
        O = np.array([rot(rng) for _ in range(n)])
    elif kind == "single":
        O = np.array([rot(rng)] * n)
    elif kind == "clustered":
        base = rot(rng)
        from scipy.spatial.transform import Rotation as R
        O = np.array([R.from_rotvec(0.15 * rng.normal(size=3)).as_matrix() @ base for _ in range(n)])
    elif kind == "girdle":
        from scipy.spatial.transform import Rotation as R
        O = np.array([R.from_euler("z", rng.uniform(0, 2 * np.pi)).as_matrix() for _ in range(n)])
    elif kind == "axis":
        # axis-aligned grains: proper signed permutation matrices (integer-valued entries)
        O = np.empty((n, 3, 3))
        for g in range(n):
            P = np.eye(3)[rng.permutation(3)] * rng.choice([-1.0, 1.0], size=3)[:, None]
            if np.linalg.det(P) < 0:
                P[0] = -P[0]
            O[g] = P
    else:
        raise ValueError(kind)
    return np.clip(O, -1.0, 1.0)  # generated inputs are themselves valid snapshots (entries in [-1, 1])


def make_fractions(rng, n, kind):
    if kind == "uniform":
        return np.full(n, 1.0 / n)
    if kind == "skewed":
        f = rng.random(n) ** 4 + 1e-6
        return f / f.sum()
    if kind == "dominant":
        f = np.full(n, 1e-3 / n); f[rng.integers(n)] = 1.0
        return f / f.sum()
    raise ValueError(kind)


def scenario(seed, idx):
    rng = np.random.default_rng([seed, idx])
    ph, fb = PAIRS[idx % 6]
    regime = 4 if (idx // 6) % 3 else 6
    kinds = ["simple", "pure", "axisym", "general", "timedep", "trace", "staged", "fastosc"]
    lk = kinds[(idx // 2) % 8] if idx % 5 else kinds[rng.integers(8)]
    n = int(rng.choice([2, 16, 40]))
    tex = ["random", "clustered", "girdle", "single", "axis"][rng.integers(5)]
    fk = ["uniform", "skewed", "dominant"][rng.integers(3)]
    parts = int(rng.choice([1, 3, 10])) if lk not in ("staged", "fastosc") else (10 if lk == "staged" else 1)
    params = dict(stress_exponent=float(rng.choice([1.5, 1.0, 2.0])), deformation_exponent=float(rng.choice([3.5, 2.0, 5.0, 3.0])),
                  nucleation_efficiency=float(rng.choice([5.0, 0.0, 10.0])), gbm_mobility=float(rng.choice([125, 0, 10, 200])),
                  gbs_threshold=float(rng.choice([0.3, 0.0, 0.9, 0.5])))
    two_phase = bool(rng.integers(2))
    return dict(seed=int(seed), idx=int(idx), phase=ph, fabric=fb, regime=regime, L_kind=lk, n=n, texture=tex, fractions=fk, parts=parts,
                params=params, two_phase=two_phase, strain=float(rng.choice([0.3, 0.8, 1.5])))


def build(sc):
    import pydrex
    from pydrex import core

    rng = np.random.default_rng([sc["seed"], sc["idx"], 7])
    get_L, L0 = make_L(rng, sc["L_kind"])
    O = make_texture(rng, sc["n"], sc["texture"])
    f = make_fractions(rng, sc["n"], sc["fractions"])
    params = core.DefaultParams().as_dict()
    params.update(sc["params"])
    params["number_of_grains"] = sc["n"]
    other = 1 - sc["phase"]
    if sc["two_phase"]:
        params["phase_assemblage"] = (core.MineralPhase(sc["phase"]), core.MineralPhase(other))
        phi = float(rng.choice([0.7, 0.3, 0.5]))
        params["phase_fractions"] = (phi, 1.0 - phi)
    else:
        params["phase_assemblage"] = (core.MineralPhase(sc["phase"]),)
        params["phase_fractions"] = (1.0,)

    def mineral():
        # the same texture handed over in different memory layouts / dtypes (the values are identical)
        O_in, v9 = O.copy(), sc["idx"] % 9
        if v9 == 4:
            O_in = np.asfortranarray(O_in)
        elif v9 == 6:
            big = np.zeros((sc["n"], 3, 6))
            big[:, :, ::2] = O
            O_in = big[:, :, ::2]  # non-contiguous view
        elif v9 == 8 and sc["texture"] == "axis":
            O_in = O.astype(np.int64)  # integer-valued orientations typed as integers
        elif v9 == 2:
            O_in = O.transpose(1, 2, 0).copy().transpose(2, 0, 1)  # (n,3,3) view of a (3,3,n) stack
        return pydrex.Mineral(phase=core.MineralPhase(sc["phase"]), fabric=core.MineralFabric(sc["fabric"]), regime=core.DeformationRegime(sc["regime"]),
                              n_grains=sc["n"], fractions_init=f.copy(), orientations_init=O_in)

    v = rng.normal(size=3) * 0.1

    def get_pos(t):
        return v * t

    F0 = np.eye(3) + 0.2 * rng.normal(size=(3, 3))
    if np.linalg.det(F0) <= 0.2:
        F0 = np.eye(3)
    t_end = sc["strain"]
    times = np.linspace(0.0, t_end, sc["parts"] + 1)
    return dict(get_L=get_L, L0=L0, O=O, f=f, params=params, mineral=mineral, get_pos=get_pos, F0=F0, times=times)


def drive(m, params, F, get_L, get_pos, times, **kw):
    for a, b in zip(times[:-1], times[1:]):
        F = m.update_orientations(params, F, get_L, (float(a), float(b), get_pos), **kw)
    return F


def strain_of(get_L, get_pos, times):
    tt = np.linspace(times[0], times[-1], 200)
    e = [np.abs(np.linalg.eigvalsh((get_L(t, get_pos(t)) + get_L(t, get_pos(t)).T) / 2)).max() for t in tt]
    return float(np.trapezoid(e, tt))


def reference_F(get_L, get_pos, F0, t0, t1):
    from scipy.integrate import solve_ivp

    sol = solve_ivp(lambda t, y: (get_L(t, get_pos(t)) @ y.reshape(3, 3)).ravel(), (t0, t1), F0.ravel(), method="DOP853", rtol=1e-11, atol=1e-13)
    return sol.y[:, -1].reshape(3, 3)


def check_snapshots(m, n, N, strain, msgs, chi):
    bound = 5e-3 + 1e-3 * (N + 2 * strain)
    if len(m.orientations) != N + 1 or len(m.fractions) != N + 1:
        msgs.append(f"{len(m.orientations)}/{len(m.fractions)} snapshots after {N} updates")
    for k, (O, f) in enumerate(zip(m.orientations, m.fractions)):
        O, f = np.asarray(O), np.asarray(f)
        if O.shape != (n, 3, 3) or f.shape != (n,):
            msgs.append(f"snapshot {k}: shapes {O.shape} {f.shape}")
            continue
        if not (np.all(np.isfinite(O)) and np.all(np.isfinite(f))):
            msgs.append(f"snapshot {k}: non-finite")
            continue
        if f.min() < 0 or abs(f.sum() - 1) > 1e-9:
            msgs.append(f"snapshot {k}: fractions min {f.min():.3e} sum-1 {f.sum() - 1:.3e}")
        if np.abs(O).max() > 1:
            msgs.append(f"snapshot {k}: orientation entry {np.abs(O).max()} > 1")
        drift = np.abs(np.einsum("gij,gkj->gik", O, O) - np.eye(3)).max()
        if drift > bound:
            msgs.append(f"snapshot {k}: orthonormality drift {drift:.3e} > {bound:.3e}")
        if np.linalg.det(O).min() <= 0:
            msgs.append(f"snapshot {k}: left-handed orientation")
        if k > 0 and chi > 0 and f.min() < chi / (n * (1 + chi)) * (1 - 1e-9):
            msgs.append(f"snapshot {k}: fraction {f.min():.3e} below the sliding floor {chi / (n * (1 + chi)):.3e}")


def run_scenarios(seed, start, count, clauses):
    """Evaluate the selected clauses on scenarios start..start+count-1."""
    import copy
    import warnings

    warnings.filterwarnings("ignore")
    import pydrex
    from pydrex import core

    failures, ev = [], 0
    for idx in range(start, start + count):
        sc = scenario(seed, idx)
        b = build(sc)
        msgs = []
        ev += 1
        n, N = sc["n"], sc["parts"]
        params = b["params"]
        chi = params["gbs_threshold"]
        try:
            m = b["mineral"]()
            snaps_before = []
            F = b["F0"]
            returned = []
            for a_, b_ in zip(b["times"][:-1], b["times"][1:]):
                before = [(np.array(o, copy=True), np.array(f, copy=True)) for o, f in zip(m.orientations, m.fractions)]
                F = m.update_orientations(params, F, b["get_L"], (float(a_), float(b_), b["get_pos"]))
                returned.append((F, np.array(F, copy=True)))
                if "C01" in clauses:
                    if len(m.orientations) != len(before) + 1:
                        msgs.append("update did not append exactly one snapshot")
                    for k, (o, f) in enumerate(before):
                        if not (np.array_equal(o, m.orientations[k]) and np.array_equal(f, m.fractions[k])):
                            msgs.append(f"earlier snapshot {k} was altered by a later update")
                            break
                if "C09" in clauses and chi > 0:
                    # grains frozen in this update: those at the floor keep the orientation they had at the start of the update
                    fl = m.fractions[-1]
                    Sn = None
            strain = strain_of(b["get_L"], b["get_pos"], b["times"])
            if ("C01" in clauses or "C08" in clauses) and idx % 7 == 3:
                # save under a postfix (next to an un-postfixed mineral of the other phase), load into a mineral of another size,
                # continue the history: the continued mineral must behave like the uninterrupted one
                import os
                import tempfile

                tmpd = tempfile.mkdtemp(prefix="pvscen", dir=os.environ.get("VERIF_SCRATCH"))
                pth = os.path.join(tmpd, "hist.npz")
                other_m = pydrex.Mineral(phase=core.MineralPhase(1 - sc["phase"]), fabric=core.MineralFabric.enstatite_AB if sc["phase"] == 0 else core.MineralFabric.olivine_A, n_grains=7, seed=4)
                other_m.save(pth)
                m.save(pth, "cont")
                mc = pydrex.Mineral(n_grains=n + 11, seed=5)
                mc.load(pth, "cont")
                if (mc.phase, mc.fabric, mc.regime, mc.n_grains) != (m.phase, m.fabric, m.regime, n):
                    msgs.append(f"a mineral restored from a postfixed member of a mixed archive has phase/fabric/regime/n_grains {int(mc.phase)}/{int(mc.fabric)}/{int(mc.regime)}/{mc.n_grains}, not {int(m.phase)}/{int(m.fabric)}/{int(m.regime)}/{n}")
                else:
                    t_a, t_b = float(b["times"][-1]), float(b["times"][-1]) + 0.2
                    mu = copy.deepcopy(m)
                    Fc = mc.update_orientations(params, F, b["get_L"], (t_a, t_b, b["get_pos"]))
                    Fu = mu.update_orientations(params, F, b["get_L"], (t_a, t_b, b["get_pos"]))
                    if not (np.array_equal(mc.orientations[-1], mu.orientations[-1]) and np.array_equal(mc.fractions[-1], mu.fractions[-1]) and np.array_equal(Fc, Fu)):
                        msgs.append("a history continued after save / load differs from the uninterrupted history")
                    check_snapshots(mc, n, len(mc.orientations) - 1, strain + 0.2, msgs, chi)
                try:
                    os.unlink(pth); os.rmdir(tmpd)
                except OSError:
                    pass
            if "C01" in clauses:
                check_snapshots(m, n, N, strain, msgs, chi)
            if "C06" in clauses:
                if any(not np.array_equal(Fo, Fc) for Fo, Fc in returned):
                    msgs.append("a deformation gradient returned by an earlier update was modified by a later update (the returned array aliases internal state)")
                # bulk update on a time axis far from zero (t0 = 1e6): same deformation gradient as on the original axis
                if sc["L_kind"] in ("simple", "pure", "axisym", "general", "trace") and idx % 3 == 0:
                    T0 = 1.0e6
                    mm1, mm2 = b["mineral"](), b["mineral"]()
                    Fs = b["F0"]
                    for a_, b_ in zip(b["times"][:-1], b["times"][1:]):
                        Fs = pydrex.update_all([mm1, mm2], params, Fs, b["get_L"], (float(a_) + T0, float(b_) + T0, (lambda t, gp=b["get_pos"]: gp(t - T0))))
                    rel_s = np.abs(Fs - F).max() / max(1e-12, np.abs(F).max())
                    if not np.isfinite(rel_s) or rel_s > 5e-3 + 1e-3 * (N + 2 * strain):
                        msgs.append(f"bulk update on the time axis shifted by 1e6 returns a deformation gradient off by {rel_s:.3e}")
                Fref = reference_F(b["get_L"], b["get_pos"], b["F0"], float(b["times"][0]), float(b["times"][-1]))
                tol = 5e-3 + 1e-3 * (N + 2 * strain)
                rel = np.abs(F - Fref).max() / max(1e-12, np.abs(Fref).max())
                if not np.isfinite(rel) or rel > tol:
                    msgs.append(f"returned F differs from the solution of dF/dt = L F by {rel:.3e} (> {tol:.3e})")
            acc = None
            if ("C05" in clauses and sc["L_kind"] in ("staged", "fastosc")) or ("C04" in clauses and sc["L_kind"] != "staged"):
                # how accurate is the default-tolerance integration of THIS scenario?  (LSODA runs with atol = 1e-4 + 1e-6 |y|;
                # grain-boundary migration with a large mobility amplifies solver errors.)  Two integrations of equivalent
                # problems cannot be expected to agree better than a few times the distance of the default run from a run with
                # tolerances tightened a thousandfold.
                mr = b["mineral"]()
                y_scale = 1e-9
                Fr = drive(mr, params, b["F0"], b["get_L"], b["get_pos"], b["times"], rtol=1e-9, atol=y_scale)
                acc = max(np.abs(np.asarray(mr.orientations[-1]) - np.asarray(m.orientations[-1])).max(), np.abs(np.asarray(mr.fractions[-1]) - np.asarray(m.fractions[-1])).max() * n,
                          np.abs(Fr - F).max() / max(1e-12, np.abs(F).max()))
                if not np.isfinite(acc):
                    acc = None
            if "C05" in clauses:
                for k in (1e-15, 1e3) if idx % 2 else (1e-9, 1e-4):
                    m2 = b["mineral"]()
                    gL = b["get_L"]
                    gp = b["get_pos"]
                    F2 = drive(m2, params, b["F0"], (lambda t, x, k=k: k * gL(t * k, x)), (lambda t, k=k: gp(t * k)), b["times"] / k)
                    d = max(np.abs(np.asarray(m2.orientations[-1]) - np.asarray(m.orientations[-1])).max(), np.abs(np.asarray(m2.fractions[-1]) - np.asarray(m.fractions[-1])).max() * n,
                            np.abs(F2 - F).max() / max(1e-12, np.abs(F).max()))
                    # rounding level for smooth histories; a history that is discontinuous in time (staged) is only reproduced within
                    # the solver tolerance, because k*(t/k) != t in floating point moves the step sequence across the jumps
                    tol5 = 1e-6 if sc["L_kind"] not in ("staged", "fastosc") else max(5e-3, 10 * (acc or 0.0))
                    if not np.isfinite(d) or d > tol5:
                        msgs.append(f"rate scaling k={k:g}: textures/F differ by {d:.3e} (> {tol5:.1e}; accuracy of the default-tolerance run {acc})")
            if "C05" in clauses and sc["L_kind"] not in ("staged", "fastosc") and idx % 3 == 0:
                # a fine partition (20 segments of 1e-6 time units) driven at rate 1 and at rate 1e3 (segments of 1e-9 time units):
                # no segment may be treated as empty because its duration is small in absolute terms
                t0_ = float(b["times"][0])
                fine = t0_ + 1e-6 * np.arange(21)
                gL, gp = b["get_L"], b["get_pos"]
                ma, mb = b["mineral"](), b["mineral"]()
                Fa = drive(ma, params, b["F0"], gL, gp, fine)
                kf = 1e3
                Fb = drive(mb, params, b["F0"], (lambda t, x: kf * gL(t0_ + (t - t0_ / kf) * kf, x)), (lambda t: gp(t0_ + (t - t0_ / kf) * kf)), t0_ / kf + 1e-9 * np.arange(21))
                d = max(np.abs(np.asarray(mb.orientations[-1]) - np.asarray(ma.orientations[-1])).max(), np.abs(np.asarray(mb.fractions[-1]) - np.asarray(ma.fractions[-1])).max() * n,
                        np.abs(Fb - Fa).max() / max(1e-12, np.abs(Fa).max()))
                moved = np.abs(Fa - b["F0"]).max()
                if len(mb.orientations) != len(ma.orientations) or not np.isfinite(d) or d > max(1e-7, 1e-2 * moved):
                    msgs.append(f"fine partition (20 x 1e-6) at rate 1e3: textures/F differ by {d:.3e} from rate 1 (F moved by {moved:.1e})")
            if "C04" in clauses and sc["L_kind"] != "staged" and sc["texture"] != "axis":
                # (staged histories contain a rigid-rotation stage: in a rotated frame its strain rate is rounding noise instead of
                #  exactly zero and the normalisation by the maximum strain rate is ill-conditioned -- see DESIGN, C04 limitations;
                #  axis-aligned textures have resolved shears that are exactly zero in the aligned frame and rounding noise in a
                #  rotated one, so the activity order of the slip systems is decided by noise there: excluded for the same reason)
                Q = rot(np.random.default_rng([sc["seed"], sc["idx"], 11]))
                m3 = pydrex.Mineral(phase=m.phase, fabric=m.fabric, regime=m.regime, n_grains=n, fractions_init=b["f"].copy(), orientations_init=b["O"] @ Q.T)
                gL, gp = b["get_L"], b["get_pos"]
                # rotate the frame; positions enter L only through x[0] in the time-dependent family, keep the same pathline argument
                ks = 1e-12 if idx % 4 == 1 else 1.0  # every fourth scenario: the rotated run in SI-like units (covariant by C05)
                F3 = drive(m3, params, Q @ b["F0"], (lambda t, x: ks * (Q @ gL(t * ks, gp(t * ks)) @ Q.T)), (lambda t: gp(t * ks)), b["times"] / ks)
                dO = np.abs(np.asarray(m3.orientations[-1]) - np.asarray(m.orientations[-1]) @ Q.T).max()
                df = np.abs(np.asarray(m3.fractions[-1]) - np.asarray(m.fractions[-1])).max() * n
                dF = np.abs(F3 - Q @ F).max() / max(1e-12, np.abs(F).max())
                tol = max(2e-2, 10 * (acc or 0.0))
                if max(dO, df, dF) > tol or not np.isfinite(max(dO, df, dF)):
                    msgs.append(f"frame rotation: orientations {dO:.2e}, fractions {df:.2e}, F {dF:.2e} (> {tol:.1e}; accuracy of the default-tolerance run {acc})")
                # two-fold relabelling of a subset of grains
                Sg = np.diag([[1, -1, -1], [-1, 1, -1], [-1, -1, 1]][idx % 3]).astype(float)
                sub = np.arange(n) % 2 == 0
                O4 = b["O"].copy(); O4[sub] = Sg @ O4[sub]
                m4 = pydrex.Mineral(phase=m.phase, fabric=m.fabric, regime=m.regime, n_grains=n, fractions_init=b["f"].copy(), orientations_init=O4)
                drive(m4, params, b["F0"], gL, gp, b["times"])
                Oe = np.asarray(m.orientations[-1]).copy(); Oe[sub] = Sg @ Oe[sub]
                dO = np.abs(np.asarray(m4.orientations[-1]) - Oe).max()
                df = np.abs(np.asarray(m4.fractions[-1]) - np.asarray(m.fractions[-1])).max() * n
                if max(dO, df) > tol or not np.isfinite(max(dO, df)):
                    msgs.append(f"two-fold relabelling: orientations {dO:.2e}, fractions {df:.2e} (> {tol:.1e})")
            if "C08" in clauses and sc["two_phase"]:
                pa, pf = params["phase_assemblage"], params["phase_fractions"]
                # (a) permuting assemblage and fractions together
                p2 = dict(params); p2["phase_assemblage"] = pa[::-1]; p2["phase_fractions"] = pf[::-1]
                m5 = b["mineral"](); F5 = drive(m5, p2, b["F0"], b["get_L"], b["get_pos"], b["times"])
                if not (np.array_equal(m5.orientations[-1], m.orientations[-1]) and np.array_equal(m5.fractions[-1], m.fractions[-1])):
                    msgs.append("permuting phase list and fraction list together changed the texture")
                # (b) single-phase mineral with mobility multiplied by its own phase fraction
                p3 = dict(params); p3["phase_assemblage"] = (pa[0],); p3["phase_fractions"] = (1.0,); p3["gbm_mobility"] = params["gbm_mobility"] * pf[0]
                m6 = b["mineral"](); drive(m6, p3, b["F0"], b["get_L"], b["get_pos"], b["times"])
                d = max(np.abs(np.asarray(m6.orientations[-1]) - np.asarray(m.orientations[-1])).max(), np.abs(np.asarray(m6.fractions[-1]) - np.asarray(m.fractions[-1])).max() * n)
                if d > 1e-9:
                    msgs.append(f"multiphase mineral differs from the single-phase mineral with M* x own fraction by {d:.2e}")
                # (c) bulk update with a second mineral, either order, and interleaving; twins bit-identical
                oth = pydrex.Mineral(phase=pa[1], fabric=core.MineralFabric.enstatite_AB if int(pa[1]) == 1 else core.MineralFabric.olivine_A,
                                     regime=m.regime, n_grains=n, seed=3)
                oth2 = copy.deepcopy(oth)
                ma, mb = b["mineral"](), b["mineral"]()
                Fa = Fb = b["F0"]
                for a_, b_ in zip(b["times"][:-1], b["times"][1:]):
                    Fa = pydrex.update_all([ma, oth], params, Fa, b["get_L"], (float(a_), float(b_), b["get_pos"]))
                    Fb = pydrex.update_all([oth2, mb], params, Fb, b["get_L"], (float(a_), float(b_), b["get_pos"]))
                # The first bulk update starts every mineral from the same F: bit-identical to the stand-alone update.  Later
                # updates receive the F integrated alongside the *last* mineral (differs at solver tolerance), hence a tolerance.
                for mm, lab in ((ma, "bulk update (listed first)"), (mb, "bulk update (listed last)")):
                    if not (np.array_equal(mm.orientations[1], m.orientations[1]) and np.array_equal(mm.fractions[1], m.fractions[1])):
                        msgs.append(f"{lab}: first update differs from the stand-alone update of the same mineral (must be bit-identical)")
                    d = max(np.abs(np.asarray(mm.orientations[-1]) - np.asarray(m.orientations[-1])).max(), np.abs(np.asarray(mm.fractions[-1]) - np.asarray(m.fractions[-1])).max() * n)
                    if d > 1e-3:
                        msgs.append(f"{lab} differs from the stand-alone update of the same mineral by {d:.2e}")
                if not np.array_equal(oth.orientations[1], oth2.orientations[1]):
                    msgs.append("second mineral's first update depends on the order of the mineral list")
                d = np.abs(np.asarray(oth.orientations[-1]) - np.asarray(oth2.orientations[-1])).max()
                if d > 1e-3:
                    msgs.append(f"second mineral depends on the order of the mineral list ({d:.2e})")
                if "C06" in clauses or True:
                    Fref = reference_F(b["get_L"], b["get_pos"], b["F0"], float(b["times"][0]), float(b["times"][-1]))
                    tol = 5e-3 + 1e-3 * (N + 2 * strain)
                    for Fx, lab in ((Fa, "bulk F (order 1)"), (Fb, "bulk F (order 2)")):
                        rel = np.abs(Fx - Fref).max() / max(1e-12, np.abs(Fref).max())
                        if rel > tol:
                            msgs.append(f"{lab} off by {rel:.2e}")
        except Exception as e:
            import traceback

            msgs.append(f"raised {type(e).__name__}: {str(e)[:150]} @ {traceback.format_exc().splitlines()[-3][:120]}")
        if msgs:
            failures.append(dict(case=f"{seed}.{idx}", checker="contracts.scenarios:replay_one", inputs=dict(seed=int(seed), idx=int(idx), clauses=list(clauses)),
                                 what="; ".join(msgs[:4]), scenario=sc))
    return dict(evaluations=ev, failures=failures[:6])


def replay_one(seed, idx, clauses):
    r = run_scenarios(seed, idx, 1, clauses)
    return dict(ok=not r["failures"], failures=r["failures"])


def run_null_scenarios(seed, start, count):
    """C07 clauses on the real code: null forcing, M* = 0, rejected regimes / ordinals, failed updates leave history untouched."""
    import warnings

    warnings.filterwarnings("ignore")
    import pydrex
    from pydrex import core

    failures, ev = [], 0
    for idx in range(start, start + count):
        rng = np.random.default_rng([seed, idx, 5])
        ph, fb = PAIRS[idx % 6]
        n = int(rng.choice([2, 9, 30]))
        O = make_texture(rng, n, ["random", "clustered", "single"][rng.integers(3)])
        chi = float(rng.choice([0.0, 0.3, 0.6]))
        # volumes at or above the sliding threshold so that grain-boundary sliding is the identity
        f = make_fractions(rng, n, "skewed")
        f = np.maximum(f, 1.01 * chi / n)
        f /= f.sum()
        if f.min() < chi / n:
            f = np.full(n, 1.0 / n)
        params = core.DefaultParams().as_dict()
        params.update(gbs_threshold=chi, gbm_mobility=float(rng.choice([0, 125])), number_of_grains=n,
                      phase_assemblage=(core.MineralPhase(ph),), phase_fractions=(1.0,))
        parts = int(rng.choice([1, 4]))
        times = np.linspace(0, float(rng.choice([0.5, 2.0])), parts + 1)
        F0 = np.eye(3) + 0.1 * rng.normal(size=(3, 3))
        Lgen, L0 = make_L(rng, ["simple", "general", "timedep"][rng.integers(3)])
        w = rng.normal(size=3)
        W = np.array([[0, -w[2], w[1]], [w[2], 0, -w[0]], [-w[1], w[0], 0]])
        gp = lambda t: np.array([0.1 * t, 0.0, 0.0])
        msgs = []
        ev += 1

        def mk(regime):
            return pydrex.Mineral(phase=core.MineralPhase(ph), fabric=core.MineralFabric(fb), regime=core.DeformationRegime(regime), n_grains=n,
                                  fractions_init=f.copy(), orientations_init=O.copy())

        def unchanged(m, label, tolO=1e-12, tolf=1e-12):
            dO = max(np.abs(np.asarray(o) - O).max() for o in m.orientations)
            df = max(np.abs(np.asarray(x) - f).max() for x in m.fractions)
            if not (dO <= tolO and df <= tolf):
                msgs.append(f"{label}: texture changed (orientations {dO:.2e}, fractions {df:.2e})")

        try:
            # (i) viscosity-bound regimes under real flow
            for regime in (0, 7):
                m = mk(regime)
                F = drive(m, params, F0, Lgen, gp, times)
                unchanged(m, f"regime {regime}")
                Fref = reference_F(Lgen, gp, F0, times[0], times[-1])
                if np.abs(F - Fref).max() / np.abs(Fref).max() > 1e-2:
                    msgs.append(f"regime {regime}: F does not follow dF/dt = L F")
                # the same after a save / load round trip of the (viscosity-bound) mineral: it must stay viscosity-bound
                if idx % 3 == 0:
                    import os
                    import tempfile

                    tmpd = tempfile.mkdtemp(prefix="pvnull", dir=os.environ.get("VERIF_SCRATCH"))
                    pth = os.path.join(tmpd, "m.npz")
                    m.save(pth, "x")
                    for mr in (pydrex.Mineral.from_file(pth, "x"), (lambda q: (q.load(pth, "x"), q)[1])(pydrex.Mineral(n_grains=3, seed=1))):
                        if int(mr.regime) != regime or int(mr.fabric) != fb or int(mr.phase) != ph:
                            msgs.append(f"regime {regime}: restored mineral has phase/fabric/regime {int(mr.phase)}/{int(mr.fabric)}/{int(mr.regime)}")
                            continue
                        drive(mr, params, F, Lgen, gp, times + times[-1])
                        unchanged(mr, f"regime {regime} after save / load")
                    try:
                        os.unlink(pth); os.rmdir(tmpd)
                    except OSError:
                        pass
            # (ii) zero velocity gradient and rigid rotation in the dislocation regimes
            for regime in (4, 6):
                m = mk(regime)
                F = drive(m, params, F0, lambda t, x: np.zeros((3, 3)), gp, times)
                unchanged(m, f"L = 0, regime {regime}")
                if np.abs(F - F0).max() > 1e-9:
                    msgs.append("L = 0: F changed")
                m = mk(regime)
                F = drive(m, params, F0, lambda t, x: W, gp, times)
                unchanged(m, f"rigid rotation, regime {regime}")
                Fref = reference_F(lambda t, x: W, gp, F0, times[0], times[-1])
                if np.abs(F - Fref).max() / np.abs(Fref).max() > 1e-2:
                    msgs.append("rigid rotation: F does not follow dF/dt = L F")
            # (iii) zero mobility: fractions unchanged under flow (chi = 0 so that sliding is off)
            p0 = dict(params); p0["gbm_mobility"] = 0.0; p0["gbs_threshold"] = 0.0
            for regime in (4, 6):
                m = mk(regime)
                drive(m, p0, F0, Lgen, gp, times)
                df = max(np.abs(np.asarray(x) - f).max() for x in m.fractions)
                if df > 1e-12:
                    msgs.append(f"M* = 0, regime {regime}: fractions changed by {df:.2e}")
            # (iv) unsupported / invalid regimes and mismatched pairs raise, history untouched -- for zero and non-zero L
            bad_regimes = [2, 3, 5, 8, -1, 99]
            for Lf, lab in ((Lgen, "flow"), (lambda t, x: np.zeros((3, 3)), "zero L")):
                for regime in bad_regimes:
                    m = mk(4)
                    m.regime = regime
                    try:
                        m.update_orientations(params, F0, Lf, (0.0, 0.5, gp))
                        msgs.append(f"regime ordinal {regime} with {lab} was accepted")
                    except Exception as e:
                        if len(m.orientations) != 1 or len(m.fractions) != 1 or not np.array_equal(m.orientations[0], O):
                            msgs.append(f"failed update (regime {regime}) altered the stored history")
                m = mk(4)
                m.fabric = core.MineralFabric.enstatite_AB if ph == 0 else core.MineralFabric.olivine_A
                try:
                    m.update_orientations(params, F0, Lf, (0.0, 0.5, gp))
                    msgs.append(f"mismatched (phase, fabric) with {lab} was accepted")
                except Exception:
                    if len(m.orientations) != 1:
                        msgs.append("failed update (mismatched fabric) altered the stored history")
        except Exception as e:
            import traceback

            msgs.append(f"raised {type(e).__name__}: {str(e)[:120]} @ {traceback.format_exc().splitlines()[-3][:100]}")
        if msgs:
            failures.append(dict(case=f"{seed}.{idx}", checker="contracts.scenarios:replay_null", inputs=dict(seed=int(seed), idx=int(idx)), what="; ".join(msgs[:4])))
    return dict(evaluations=ev, failures=failures[:6])


def replay_null(seed, idx):
    r = run_null_scenarios(seed, idx, 1)
    return dict(ok=not r["failures"], failures=r["failures"])


def run_gbs_scenarios(seed, start, count):
    """C09 on real updates: grains that end an update at the floor keep the orientation they had at its start."""
    import warnings

    warnings.filterwarnings("ignore")
    failures, ev = [], 0
    for idx in range(start, start + count):
        sc = scenario(seed, idx)
        sc["params"]["gbs_threshold"] = [0.3, 0.5, 0.9, 0.0][idx % 4]
        sc["params"]["gbm_mobility"] = [125.0, 200.0, 50.0][idx % 3]
        sc["n"] = [16, 40, 120][idx % 3]
        sc["strain"] = 1.5
        b = build(sc)
        params, n = b["params"], sc["n"]
        chi = params["gbs_threshold"]
        msgs = []
        ev += 1
        try:
            m = b["mineral"]()
            F = b["F0"]
            for a_, b_ in zip(b["times"][:-1], b["times"][1:]):
                O_start = np.array(m.orientations[-1], copy=True)
                F = m.update_orientations(params, F, b["get_L"], (float(a_), float(b_), b["get_pos"]))
                fn_, On = np.asarray(m.fractions[-1]), np.asarray(m.orientations[-1])
                if abs(fn_.sum() - 1) > 1e-9 or fn_.min() < 0:
                    msgs.append("fractions not normalised")
                if chi > 0:
                    floor = fn_.min()
                    if floor < chi / (n * (1 + chi)) * (1 - 1e-9):
                        msgs.append(f"stored fraction {floor:.3e} below chi/(n(1+chi))")
                    at_floor = np.isclose(fn_, floor, rtol=1e-12, atol=0) & (fn_ * (1 + chi) <= chi / n * (1 + 1e-9) * (1 + chi))
                    # grains at the floor value chi/(n S): frozen at the start-of-update orientation
                    S_ = (chi / n) / floor if floor > 0 else None
                    if S_ is not None and 1 - 1e-9 <= S_ <= 1 + chi + 1e-9:
                        fl = np.isclose(fn_ * S_, chi / n, rtol=1e-10, atol=0)
                        if fl.any() and not np.array_equal(On[fl], O_start[fl]):
                            d = np.abs(On[fl] - O_start[fl]).max()
                            msgs.append(f"{int(fl.sum())} floored grains do not keep their start-of-update orientation (max diff {d:.2e})")
                else:
                    pass
        except Exception as e:
            msgs.append(f"raised {type(e).__name__}: {str(e)[:120]}")
        if msgs:
            failures.append(dict(case=f"{seed}.{idx}", checker="contracts.scenarios:replay_gbs", inputs=dict(seed=int(seed), idx=int(idx)), what="; ".join(msgs[:3])))
    return dict(evaluations=ev, failures=failures[:6])


def replay_gbs(seed, idx):
    r = run_gbs_scenarios(seed, idx, 1)
    return dict(ok=not r["failures"], failures=r["failures"])
