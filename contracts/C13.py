"""C13 — eigenvalue-based texture and strain diagnostics are objective."""
import numpy as np
import z3

from pv import engine as E
from pv import larr as LA
from pv import native
from pv import sym as S
from pv.facets import prove_entries
from pv.sym import Sym, SymInt, sym, symarr
from pv.util import real_module

G = LA.G


def run(run):
    run.assume("S-REAL", "S-PY", "S-NUMPY", "A-SIGMA", "A-EIG", "A-QUAT")
    for f in (scatter_facets, pgr_facets, bingham_facets, finite_strain_facets, angle_helper_facets):
        try:
            f(run)
        except E.UNSUPPORTED_EXC as e:
            run.undecided(f.__name__, "pydrex.diagnostics", f"unsupported construct: {e}")
        except (AttributeError, TypeError, KeyError, IndexError) as e:
            run.undecided(f.__name__, "pydrex.diagnostics", f"not interpretable: {type(e).__name__}: {e}")
        finally:
            E.Ctx.cur = None
            LA.Sigma.cur = None
    bounded(run)


# ----------------------------------------------------------------------------- _scatter_matrix (symbolic n)
def _scatter(row, O=None, n=None, sg=None, name="A"):
    ST = real_module("pydrex.stats")
    g = E.rebind_module(ST, np_shim=LA.NPLift())
    n = n or SymInt(z3.Int("n"))
    sg = sg or LA.Sigma(n)
    LA.Sigma.cur = sg
    O = O or LA.larr(name, n, (3, 3))
    return g["_scatter_matrix"](O, row), O, n, sg


def scatter_facets(run):
    fn = "pydrex.stats._scatter_matrix"
    for row in (0, 1, 2):
        c = E.Ctx([])
        E.Ctx.cur = c
        c.reset_path([])
        Sm, O, n, sg = _scatter(row)
        H = [n.z >= 1, G >= 0, G < n.z]
        with S.quiet():
            v = O.fn(G)[row]
        ok = True
        detail = []
        for i in range(3):
            for j in range(3):
                e = Sm[i, j]
                if j > i:
                    continue  # the eigen-solvers read the lower triangle only: the upper triangle is unconstrained
                if not isinstance(e, Sym) or str(e.z) not in sg.sums:
                    ok = False
                    detail.append(f"[{i},{j}] is not a sum over grains")
                    continue
                run.prove(f"scatter[row={row}]/entry[{i},{j}] sums v_{i} v_{j} over the grains (v = row {row} of each orientation)", fn, H, sg.sums[str(e.z)] == S.zz(v[i] * v[j]), replay=_rp_scatter(row))
        run.exact(f"scatter[row={row}]/lower triangle (read by the eigen-solvers) consists of sums over the grains", fn, ok, "; ".join(detail) or "6 Sigma terms")
        # grain-order independence: every entry is a Sigma term (law PERM); sign independence: summand even in v (law CONG)
        with S.quiet():
            vneg = [-x for x in v]
        run.prove(f"scatter[row={row}]/summands unchanged when a grain's axis changes sign (lattice two-fold)", fn, H, z3.And(*[S.zz(vneg[i] * vneg[j]) == S.zz(v[i] * v[j]) for i in range(3) for j in range(i + 1)]), structural=True)
        # frame rotation: summand'(i,j) = sum_kl Q_ik Q_jl v_k v_l  =>  (law LIN) S' = Q S Q^T
        Qn, s, hq, q = S.quat_rotation("q")
        vq = S._matmul(Qn, S.SymArray(np.array(list(v), dtype=object)))  # (v Q^T) = Q v
        goals = []
        for i in range(3):
            for j in range(i + 1):
                rhs = 0
                for k in range(3):
                    for l in range(3):
                        rhs = rhs + Qn[i, k] * Qn[j, l] * (v[k] * v[l])
                goals.append(S.zz(vq[i] * vq[j]) == S.zz(rhs))
        run.prove(f"scatter[row={row}]/LIN side condition for co-rotation: (Qv)_i (Qv)_j == sum_kl Q_ik Q_jl v_k v_l", fn, H + hq, z3.And(*goals), structural=True,
                  detail="hence scatter(A Q^T) == Q scatter(A) Q^T (law LIN, coefficients Q_ik Q_jl free of the grain index)")
        # positive semi-definite: x^T S x = sum_g (v.x)^2 (LIN) >= 0 (NONNEG); trace = sum |v|^2
        x = symarr("x", (3,))
        quad = 0
        for i in range(3):
            for j in range(3):
                quad = quad + x[i] * x[j] * (v[i] * v[j])
        dot = v[0] * x[0] + v[1] * x[1] + v[2] * x[2]
        run.prove(f"scatter[row={row}]/LIN+NONNEG side condition: sum_ij x_i x_j v_i v_j == (v.x)^2 >= 0", fn, H, z3.And(S.zz(quad) == S.zz(dot * dot), S.zz(dot * dot) >= 0), structural=True)
    run.canary("scatter/canary", fn, [], z3.Real("u") * z3.Real("u") == -1)


def _rp_scatter(row):
    def replay(model):
        res = native.call("contracts.C13", "nat_sweep", dict(seed=77, count=40))
        if res["failures"]:
            f0 = res["failures"][0]
            return True, dict(checker=f0["checker"], inputs=f0["inputs"], what=f0["what"])
        return False, dict(note="native sweep found no failing input")

    return replay


# ----------------------------------------------------------------------------- symmetry_pgr / coaxial_index
def pgr_facets(run):
    D = real_module("pydrex.diagnostics")
    fn = "pydrex.diagnostics.symmetry_pgr"
    seen = {}

    class StatsStub:
        @staticmethod
        def _scatter_matrix(o, row):
            seen["row"] = row
            seen["o"] = o
            return "SCATTER"

    lam = symarr("lam", (3,))

    class LAStub:
        @staticmethod
        def eigvalsh(m):
            seen["eig_arg"] = m
            return lam

    c = E.Ctx([])
    E.Ctx.cur = c
    c.reset_path([])
    g = dict(D.__dict__)
    g.update(np=S.NPShim(), la=LAStub, _stats=StatsStub)
    f = E.rebind_function(D.symmetry_pgr, g)
    # A-EIG + PSD scatter matrix: ascending, non-negative, positive sum (trace = number of grains for unit axes)
    l0, l1, l2 = (S.zz(v) for v in lam)
    H = [l0 <= l1, l1 <= l2, l0 >= 0, l0 + l1 + l2 > 0]
    for ax, row in (("a", 0), ("b", 1), ("c", 2)):
        c.reset_path([])
        O = object()
        P, Gg, R = f(O, ax)
        run.exact(f"symmetry_pgr[{ax}]/uses the scatter matrix of crystal axis row {row} of the given orientations", fn, seen.get("row") == row and seen.get("o") is O and seen.get("eig_arg") == "SCATTER", f"row {seen.get('row')}")
        Hc = H + list(c.pc)
        for k, o in enumerate(c.oblig):
            run.prove(f"symmetry_pgr[{ax}]/safety.{o.name}#{k}", fn, H + list(o.pc), o.goal, structural=True, kind="safety")
        N = l0 + l1 + l2
        run.prove(f"symmetry_pgr[{ax}]/P,G,R are the documented eigenvalue ratios", fn, Hc, E.clear_formula(z3.And(S.zz(P) * N == l2 - l1, S.zz(Gg) * N == 2 * (l1 - l0), S.zz(R) * N == 3 * l0)), structural=True)
        run.prove(f"symmetry_pgr[{ax}]/P + G + R == 1 and each lies in [0, 1]", fn, Hc, E.clear_formula(z3.And(S.zz(P) + S.zz(Gg) + S.zz(R) == 1, S.zz(P) >= 0, S.zz(P) <= 1, S.zz(Gg) >= 0, S.zz(Gg) <= 1, S.zz(R) >= 0, S.zz(R) <= 1)), structural=True)
    for bad in ("d", "A", "", None):
        try:
            f(object(), bad)
            okb = False
        except ValueError:
            okb = True
        except Exception:
            okb = False
        run.exact(f"symmetry_pgr[{bad!r}]/invalid axis raises ValueError", fn, okb, "axis must be 'a', 'b' or 'c'")
    # coaxial index with symmetry_pgr under contract
    fnc = "pydrex.diagnostics.coaxial_index"
    calls = []

    def pgr_stub(o, axis="a"):
        k = len(calls)
        calls.append((o, axis))
        return sym(f"P{k}"), sym(f"G{k}"), sym(f"R{k}")

    c.reset_path([])
    g2 = dict(D.__dict__)
    g2.update(np=S.NPShim(), symmetry_pgr=pgr_stub)
    fc = E.rebind_function(D.coaxial_index, g2)
    O = object()
    ba = fc(O, "b", "a")
    P0, G0, P1, G1 = (z3.Real(k) for k in ("P0", "G0", "P1", "G1"))
    Hp = [P0 >= 0, G0 >= 0, P1 >= 0, G1 >= 0, P0 + G0 > 0, P1 + G1 > 0]
    run.exact("coaxial_index/evaluates P,G of the two requested axes of the same orientations", fnc, [a for _, a in calls] == ["b", "a"] and all(o is O for o, _ in calls), f"calls {[(a) for _, a in calls]}")
    run.prove("coaxial_index == (2 - P1/(G1+P1) - G2/(G2+P2))/2", fnc, Hp + list(c.pc), E.clear_formula(S.zz(ba) == (2 - P0 / (G0 + P0) - G1 / (G1 + P1)) / 2), structural=True)
    run.prove("coaxial_index in [0, 1] when both scatter matrices are not isotropic", fnc, Hp + list(c.pc), E.clear_formula(z3.And(S.zz(ba) >= 0, S.zz(ba) <= 1)), structural=True)
    E.Ctx.cur = None


# ----------------------------------------------------------------------------- bingham_average
def bingham_facets(run):
    D = real_module("pydrex.diagnostics")
    fn = "pydrex.diagnostics.bingham_average"
    seen = {}

    class StatsStub:
        @staticmethod
        def _scatter_matrix(o, row):
            seen["row"] = row
            return "SCATTER"

    V = symarr("V", (3, 3))
    w = symarr("w", (3,))

    class LAStub:
        @staticmethod
        def eigh(m, *a, **k):
            seen["arg"] = m
            return w, V

        @staticmethod
        def norm(x):
            return S.s_sqrt(S._sum(S.ew(lambda t: t * t, x)))

    c = E.Ctx([])
    E.Ctx.cur = c
    g = dict(D.__dict__)
    g.update(np=S.NPShim(), la=LAStub, _stats=StatsStub)
    f = E.rebind_function(D.bingham_average, g)
    VtV = S._matmul(V.T, V)
    Hv = [S.zz(VtV[i, j]) == (1 if i == j else 0) for i in range(3) for j in range(3)]  # A-EIG: orthonormal eigenvectors
    for ax, row in (("a", 0), ("b", 1), ("c", 2)):
        c.reset_path([])
        out = f(np.zeros((2, 3, 3)), ax)
        run.exact(f"bingham_average[{ax}]/eigen-decomposition of the scatter matrix of crystal axis row {row}", fn, seen.get("row") == row and seen.get("arg") == "SCATTER", f"row {seen.get('row')}")
        Hc = Hv + list(c.pc)
        for k, o in enumerate(c.oblig):
            run.prove(f"bingham_average[{ax}]/safety.{o.name}#{k}", fn, Hv + list(o.pc), o.goal, structural=True, kind="safety")
        nrm = S._sum(S.ew(lambda t: t * t, out))
        run.prove(f"bingham_average[{ax}]/result is a unit vector", fn, Hc, E.clear_formula(S.zz(nrm) == 1), structural=True)
        goals = [E.clear_formula(S.zz(out[i]) * S.zz(V[j, 2]) == S.zz(out[j]) * S.zz(V[i, 2])) for i in range(3) for j in range(i)]
        run.prove(f"bingham_average[{ax}]/parallel to the eigenvector of the largest eigenvalue (last column)", fn, Hc, z3.And(*goals), structural=True)
    try:
        f(np.zeros((2, 3, 3)), "x")
        okb = False
    except ValueError:
        okb = True
    run.exact("bingham_average['x']/invalid axis raises ValueError", fn, okb, "")
    E.Ctx.cur = None


# ----------------------------------------------------------------------------- finite_strain
def finite_strain_facets(run):
    D = real_module("pydrex.diagnostics")
    fn = "pydrex.diagnostics.finite_strain"
    seen = {}
    V = symarr("V", (3, 3))
    w = symarr("w", (3,))

    class LAStub:
        @staticmethod
        def eigh(m, *a, **k):
            seen["arg"] = m
            return w, V

    g = dict(D.__dict__)
    g.update(np=S.NPShim(), la=LAStub)
    f = E.rebind_function(D.finite_strain, g)
    F = symarr("F", (3, 3))

    def body():
        val_, vec_ = f(F)
        return val_, vec_, seen["arg"]

    ex = E.explore(body, hyps=[S.zz(w[2]) >= 0], max_paths=16)
    run.paths += len(ex.paths)
    if not ex.complete or not ex.paths or ex.unsupported:
        run.undecided("finite_strain", fn, "exploration incomplete: " + "; ".join(ex.unsupported[:2]))
        return
    for pi, p in enumerate(ex.paths):
        tag = "finite_strain" if len(ex.paths) == 1 else f"finite_strain/path{pi}"
        Hc = list(ex.ctx.hyps) + list(p.pc)
        if p.exc is not None:
            run.prove(f"{tag}/does not raise", fn, Hc, z3.BoolVal(False), replay=_rp_fs(), detail=f"{type(p.exc).__name__}: {p.exc}")
            continue
        val, vec, B = p.value
        prove_entries(run, f"{tag}/decomposes the left Cauchy-Green tensor F F^T", fn, list(ex.ctx.hyps), B, S._matmul(F, F.T), replay=_rp_fs())
        for k, o in enumerate(p.oblig):
            run.prove(f"{tag}/safety.{o.name}#{k}", fn, list(ex.ctx.hyps) + list(o.pc), o.goal, structural=True, kind="safety")
        run.prove(f"{tag}/returns sqrt(largest eigenvalue) - 1", fn, Hc, z3.And((S.zz(val) + 1) * (S.zz(val) + 1) == S.zz(w[2]), S.zz(val) + 1 >= 0), replay=_rp_fs())
        run.exact(f"{tag}/returns the eigenvector of the largest eigenvalue (last column)", fn, all(z3.eq(S.zz(a), S.zz(b)) for a, b in zip(vec, V[:, 2])), "B_v[:, -1]")
    c = E.Ctx([S.zz(w[2]) >= 0])
    c.exploring = True  # the two objectivity runs below only look at the matrix handed to the eigen-solver stub
    E.Ctx.cur = c
    c.reset_path([])
    f(F)
    B = seen["arg"]
    # objectivity of the matrix handed to the eigen-solver
    Qn, s, hq, q = S.quat_rotation("q")
    c.reset_path([])
    f(S._matmul(F, Qn))
    prove_entries(run, "finite_strain/F -> F Q leaves F F^T unchanged", fn, list(c.hyps) + hq, seen["arg"], S.ew(lambda v_: v_ * s * s, B))
    c.reset_path([])
    f(S._matmul(Qn, F))
    prove_entries(run, "finite_strain/F -> Q F maps F F^T to Q (F F^T) Q^T", fn, list(c.hyps) + hq, seen["arg"], S._matmul(Qn, S._matmul(B, Qn.T)))
    run.note("co-rotation of the returned eigenvector under F -> Q F follows from A-EIG (eigenvectors of Q B Q^T are Q times those of B) for a simple largest eigenvalue; checked natively in the bounded stand-in")
    E.Ctx.cur = None


def nat_finite_strain(seed=0):
    """Real finite_strain on deformation gradients with stretches above and below one (extension, compaction, mixed)."""
    from pydrex import diagnostics as D

    rng = np.random.default_rng(seed)
    msgs = []
    for k in range(40):
        if k < 3:
            F = np.diag([[0.8, 0.75, 0.7], [2.0, 1.0, 0.5], [0.999, 0.5, 0.25]][k])
        else:
            F = (np.eye(3) + 0.5 * rng.normal(size=(3, 3))) * float(rng.choice([0.3, 1.0, 2.0]))
        if abs(np.linalg.det(F)) < 1e-3:
            continue
        e, v = D.finite_strain(F)
        sv = np.linalg.svd(F, compute_uv=False)
        if abs(e - (sv[0] - 1)) > 1e-9 * max(1, sv[0]):
            msgs.append(f"finite_strain of F with principal stretches {np.round(sv, 3).tolist()} returns {e:.6f}, not {sv[0] - 1:.6f}")
    return dict(ok=not msgs, what="; ".join(msgs[:2]))


def _rp_fs():
    def replay(model):
        r0 = native.call("contracts.C13", "nat_finite_strain", dict(seed=0))
        if not r0["ok"]:
            return True, dict(checker="contracts.C13:nat_finite_strain", inputs=dict(seed=0), what=r0["what"])
        res = native.call("contracts.C13", "nat_sweep", dict(seed=78, count=40))
        if res["failures"]:
            f0 = res["failures"][0]
            return True, dict(checker=f0["checker"], inputs=f0["inputs"], what=f0["what"])
        return False, dict(note="native sweep found no failing input")

    return replay


def angle_helper_facets(run):
    """For simple shear with the velocity along Y and its gradient along X (F = [[1,0],[2e,1]]) the principal axis of F F^T for
    the largest eigenvalue makes the angle atan(e + sqrt(e^2+1)) with X."""
    U = real_module("pydrex.utils")
    fn = "pydrex.utils.angle_fse_simpleshear"
    c = E.Ctx([])
    E.Ctx.cur = c
    c.reset_path([])
    g = E.rebind_module(U)
    e = sym("e")
    captured = {}

    class Shim(S.NPShim):
        def rad2deg(self, x):
            captured["rad"] = x
            return x * 180 / Sym(S.PI)

        def arctan(self, x):
            captured["tan"] = x
            return Sym(S.ATAN(S.zz(x)))

    g["np"] = Shim()
    g["angle_fse_simpleshear"](e)
    t = captured.get("tan")
    if t is None:
        run.undecided("angle_fse_simpleshear", fn, "formula is not arctan(..) in degrees")
        return
    tz = S.zz(t)
    ez = e.z
    H = list(c.hyps) + list(c.pc)
    # (1, t) is an eigenvector of B = [[1, 2e], [2e, 1 + 4e^2]] and its eigenvalue is the larger one (>= trace/2)
    lam = 1 + 2 * ez * tz
    run.prove("angle_fse_simpleshear/tan(angle) direction is an eigenvector of F F^T", fn, H, z3.And(2 * ez + (1 + 4 * ez * ez) * tz == lam * tz), structural=True)
    run.prove("angle_fse_simpleshear/its eigenvalue is the largest principal stretch squared", fn, H + [ez >= 0], 2 * lam >= 2 + 4 * ez * ez, structural=True)
    E.Ctx.cur = None


# ----------------------------------------------------------------------------- bounded stand-in
def bounded(run):
    n = 240 if run.tier == "quick" else 3000 * run.tmul
    jobs = [dict(seed=run.seed * 13 + k, count=n // 8) for k in range(8)]
    res, errs = native.pmap("contracts.C13", "nat_sweep", jobs)
    ev = sum(r["evaluations"] for r in res if r and "_error" not in r)
    fails = [f for r in res if r and "_error" not in r for f in r["failures"]]
    run.worker_errors(errs, len(jobs))
    run.bounded_result("real diagnostics (LAPACK): ranges, sum, unit axis = principal eigenvector, invariance under grain order / two-folds / frame rotation, co-rotation of axes, finite strain objectivity, simple-shear angle",
                       "pydrex.diagnostics", f"{ev} generated textures (random, clustered, girdled, single; 1..2000 grains) and deformation gradients", ev, fails, ev)


def nat_sweep(seed, count):
    import pydrex
    from pydrex import diagnostics as D, utils as U
    from scipy.spatial.transform import Rotation as R

    rng = np.random.default_rng(seed)
    fails, ev = [], 0
    for it in range(count):
        n = int(rng.choice([1, 2, 5, 50, 400, 2000])) if it % 12 != 5 else int(rng.choice([4500, 6000, 8192, 8200]))
        kind = rng.integers(4)
        if kind == 0:
            O = R.random(n, random_state=int(rng.integers(1 << 30))).as_matrix()
        elif kind == 1:
            base = R.random(random_state=int(rng.integers(1 << 30)))
            O = (R.from_rotvec(0.2 * rng.normal(size=(n, 3))) * base).as_matrix()
        elif kind == 2:
            base = R.random(random_state=int(rng.integers(1 << 30)))
            O = (R.from_euler("z", rng.uniform(0, 2 * np.pi, (n, 1))) * base).as_matrix() if rng.random() < 0.5 else (base * R.from_euler("x", rng.uniform(0, 2 * np.pi, (n, 1)))).as_matrix()
        else:
            O = np.array([R.random(random_state=int(rng.integers(1 << 30))).as_matrix()] * n)
        O = np.asarray(O).reshape(n, 3, 3)
        if n > 4096:
            # large aggregates are heterogeneous along the array (the last 1500 grains form their own cluster), so that any
            # block-wise accumulation that loses or double-counts a block changes the result
            base2 = R.random(random_state=int(rng.integers(1 << 30)))
            O[-1500:] = (R.from_rotvec(0.1 * rng.normal(size=(1500, 3))) * base2).as_matrix()
        Q = R.random(random_state=int(rng.integers(1 << 30))).as_matrix()
        perm = rng.permutation(n)
        Sg = np.diag([[1, -1, -1], [-1, 1, -1], [-1, -1, 1]][rng.integers(3)]).astype(float)
        sub = rng.random(n) < 0.5
        O2 = O.copy(); O2[sub] = Sg @ O2[sub]
        msgs = []
        ev += 1
        try:
            for ax in "abc":
                row = "abc".index(ax)
                P, G_, Rr = D.symmetry_pgr(O, ax)
                if not (abs(P + G_ + Rr - 1) < 1e-9 and all(-1e-9 <= v <= 1 + 1e-9 for v in (P, G_, Rr))):
                    msgs.append(f"PGR[{ax}] = {P:.3f},{G_:.3f},{Rr:.3f}")
                for lab, Ox in (("reordered", O[perm]), ("two-fold relabelled", O2), ("rotated frame", O @ Q.T)):
                    Px = D.symmetry_pgr(Ox, ax)
                    if not np.allclose(Px, (P, G_, Rr), atol=1e-9):
                        msgs.append(f"PGR[{ax}] changes when grains are {lab}")
                m = D.bingham_average(O, ax)
                Sc = np.einsum("gi,gj->ij", O[:, row, :], O[:, row, :])
                w, V = np.linalg.eigh(Sc)
                if abs(np.linalg.norm(m) - 1) > 1e-9:
                    msgs.append(f"bingham[{ax}] not unit")
                if n > 1 and w[2] - w[1] > 1e-6 * max(1, w[2]):
                    if abs(abs(m @ V[:, 2]) - 1) > 1e-6:
                        msgs.append(f"bingham[{ax}] is not the principal eigenvector of the scatter matrix")
                    mq = D.bingham_average(O @ Q.T, ax)
                    if abs(abs(mq @ (Q @ m)) - 1) > 1e-6:
                        msgs.append(f"bingham[{ax}] does not co-rotate")
                    m2 = D.bingham_average(O2[perm], ax)
                    if abs(abs(m2 @ m) - 1) > 1e-6:
                        msgs.append(f"bingham[{ax}] changes under reordering / two-fold relabelling")
                # history: the caller's array is updated in place between two calls (what a texture simulation does with its
                # orientation buffer); the second call must describe the current contents, i.e. equal the call on a fresh copy
                Ow = O.copy()
                D.bingham_average(Ow, ax); D.symmetry_pgr(Ow, ax)
                Ow[...] = Ow[perm] @ Q.T
                got = (D.bingham_average(Ow, ax), D.symmetry_pgr(Ow, ax))
                fresh = Ow.copy()
                want = (D.bingham_average(fresh, ax), D.symmetry_pgr(fresh, ax))
                if not (np.allclose(got[0], want[0], atol=1e-12) and np.allclose(got[1], want[1], atol=1e-12)):
                    msgs.append(f"after an in-place update of the same array, bingham/PGR[{ax}] describe the old contents (differs from the call on a fresh copy)")
            for a1, a2 in (("b", "a"), ("a", "c")):
                P1, G1, _ = D.symmetry_pgr(O, a1)
                P2, G2, _ = D.symmetry_pgr(O, a2)
                if G1 + P1 > 1e-9 and G2 + P2 > 1e-9:
                    ba = D.coaxial_index(O, a1, a2)
                    if not (-1e-9 <= ba <= 1 + 1e-9):
                        msgs.append(f"coaxial index {ba:.3f} outside [0,1]")
                    if abs(D.coaxial_index(O2[perm] @ Q.T, a1, a2) - ba) > 1e-8:
                        msgs.append("coaxial index not invariant")
                    Ow = O.copy()
                    D.coaxial_index(Ow, a1, a2)
                    Ow[...] = (R.from_rotvec(0.5 * rng.normal(size=(n, 3))).as_matrix() @ Ow)
                    P1w, G1w, _ = D.symmetry_pgr(Ow.copy(), a1); P2w, G2w, _ = D.symmetry_pgr(Ow.copy(), a2)
                    if G1w + P1w > 1e-9 and G2w + P2w > 1e-9 and abs(D.coaxial_index(Ow, a1, a2) - D.coaxial_index(Ow.copy(), a1, a2)) > 1e-12:
                        msgs.append("after an in-place update of the same array, the coaxial index describes the old contents")
            F = (np.eye(3) + 0.6 * rng.normal(size=(3, 3))) * float(rng.choice([1.0, 1.0, 0.3, 2.0]))
            if abs(np.linalg.det(F)) > 1e-3:
                e, v = D.finite_strain(F)
                sv = np.linalg.svd(F, compute_uv=False)
                if abs(e - (sv[0] - 1)) > 1e-9 * max(1, sv[0]):
                    msgs.append("finite strain is not the largest principal stretch minus one")
                for drv in ("evd", "evr", "evx"):  # the optional LAPACK driver must not change the answer
                    ed, vd = D.finite_strain(F, driver=drv)
                    if abs(ed - e) > 1e-9 * max(1, sv[0]) or (sv[0] - sv[1] > 1e-6 and abs(abs(vd @ v) - 1) > 1e-6):
                        msgs.append(f"finite_strain(driver={drv!r}) differs from the default driver: {ed:.6f} vs {e:.6f}")
                        break
                e2, v2 = D.finite_strain(F @ Q)
                e3, v3 = D.finite_strain(Q @ F)
                if sv[0] - sv[1] > 1e-6:
                    if abs(e2 - e) > 1e-9 or abs(abs(v2 @ v) - 1) > 1e-6:
                        msgs.append("finite strain changes under a prior rigid rotation F -> F Q")
                    if abs(e3 - e) > 1e-9 or abs(abs(v3 @ (Q @ v)) - 1) > 1e-6:
                        msgs.append("finite strain axis does not co-rotate under F -> Q F")
                    Uu, _, _ = np.linalg.svd(F)
                    if abs(abs(v @ Uu[:, 0]) - 1) > 1e-6:
                        msgs.append("finite strain axis is not the long axis of the strain ellipsoid")
            eps = float(rng.uniform(0, 3))
            Fs = np.eye(3); Fs[1, 0] = 2 * eps
            _, vs = D.finite_strain(Fs)
            ang = np.rad2deg(np.arctan2(vs[1], vs[0])) % 180
            if eps > 1e-3 and abs(ang - U.angle_fse_simpleshear(eps)) > 1e-6:
                msgs.append(f"simple shear: strain-ellipsoid axis {ang:.4f} deg vs closed form {U.angle_fse_simpleshear(eps):.4f} deg")
        except Exception as ex:
            msgs.append(f"raised {type(ex).__name__}: {ex}")
        if msgs:
            fails.append(dict(case=f"{seed}.{it}", checker="contracts.C13:nat_case", inputs=dict(seed=int(seed), it=it, count=count), what="; ".join(msgs[:4])))
    return dict(evaluations=ev, failures=fails[:5])


def nat_case(seed, it, count):
    r = nat_sweep(seed, count)
    hit = [f for f in r["failures"] if f["case"] == f"{seed}.{it}"]
    return dict(ok=not hit, failures=hit)
