"""Lifted (symbolic n_grains) contracts of pydrex.utils.apply_gbs and pydrex.utils.extract_vars (C09, C01, C07)."""
import numpy as np
import z3

from pv import engine as E
from pv import larr as LA
from pv import native
from pv import sym as S
from pv.facets import prove_entries
from pv.sym import Sym, SymInt, sym, symarr
from pv.util import Z, real_module


def _guarded(f):
    """A facet group that cannot interpret what the (changed) code does is *undecided* (the native searches of the same
    check still decide), never a checker failure."""
    import functools

    @functools.wraps(f)
    def w(run, *a, **k):
        try:
            return f(run, *a, **k)
        except E.UNSUPPORTED_EXC as e:
            run.undecided(f.__name__, "pydrex.utils", f"unsupported construct: {e}")
        except (AttributeError, TypeError, IndexError, KeyError, ValueError, ArithmeticError) as e:
            import traceback

            run.undecided(f.__name__, "pydrex.utils", f"harness could not interpret the code's behaviour: {type(e).__name__}: {e} @ {traceback.format_exc().splitlines()[-3].strip()[:120]}")
        finally:
            E.Ctx.cur = None
            LA.Sigma.cur = None
            LA.LoopRule.cur = None

    return w

MOD = "pydrex.utils"
G = LA.G
H2 = z3.Int("h!")


def _at(larr, i):
    with S.quiet():
        return larr.fn(i)


def gbs_native_check(o, f, chi, prev):
    """All C09 clauses on the real (compiled) apply_gbs for one concrete input; returns list of messages."""
    import pydrex.utils as U

    o, f, prev = np.array(o, float), np.array(f, float), np.array(prev, float)
    n = len(f)
    o_in, f_in, prev_in = o.copy(), f.copy(), prev.copy()
    ro, rf = U.apply_gbs(o, f, float(chi), prev, n)
    msgs = []
    thr = chi / n
    mask = f_in < thr
    if not np.array_equal(prev, prev_in):
        msgs.append("orientations_prev was modified")
    if ro.shape != (n, 3, 3) or rf.shape != (n,):
        return msgs + [f"shapes {ro.shape} {rf.shape}"]
    if not np.array_equal(ro[mask], prev_in[mask]):
        msgs.append("a floored grain does not carry its previous orientation")
    if not np.array_equal(ro[~mask], o_in[~mask]):
        msgs.append("an unfloored grain lost its integrated orientation")
    u = np.where(mask, thr, f_in)
    Ssum = u.sum()
    if not np.allclose(rf * Ssum, u, rtol=1e-12, atol=1e-300):
        msgs.append("fractions are not (floor or original)/sum")
    if abs(rf.sum() - 1) > 1e-12:
        msgs.append(f"fractions sum to {rf.sum()}")
    if chi > 0 and rf.min() < thr / (1 + chi) * (1 - 1e-12):
        msgs.append("fraction below chi/(n(1+chi))")
    order = np.argsort(f_in, kind="stable")
    if np.any(np.diff(rf[order]) < -1e-15):
        msgs.append("ordering of grain volumes not preserved")
    if chi == 0 and (mask.any() or not np.array_equal(ro, o_in)):
        msgs.append("chi = 0 froze or floored a grain")
    if np.any(rf < 0):
        msgs.append("negative fraction")
    return msgs


def nat_gbs_search(seed, count, hint=None):
    """Native search for a failing apply_gbs input (used to confirm solver refutations and as bounded stand-in)."""
    rng = np.random.default_rng(seed)
    fails, ev = [], 0
    for it in range(count):
        n = int(rng.choice([1, 2, 3, 7, 50, 400]))
        chi = float(rng.choice([0.0, 0.3, 0.9, 0.5, rng.random() * 0.99]))
        f = rng.random(n) ** rng.choice([1, 3, 8])
        f /= f.sum()
        kind = rng.integers(4)
        if kind == 0 and n > 1:  # exact ties at the threshold
            f = np.full(n, 1.0 / n)
            chi = float(rng.choice([0.5, 0.25, 0.0]))
            k = rng.integers(1, n)
            f[:k] = chi / n
            f[k:] = (1 - k * chi / n) / (n - k)
        elif kind == 1 and n > 2:  # zero-volume grains and one dominant grain
            f[: n // 2] = 0.0
            f /= f.sum()
        if hint is not None and it == 0:
            n = max(2, min(int(hint.get("n", 2)), 60))
            chi = float(min(max(hint.get("chi", 0.3), 0.0), 0.99))
            f = rng.random(n) * 0.1
            f[0], f[1] = max(hint.get("fg", 0.0), 0.0), max(hint.get("fh", 0.0), 0.0)
            if f.sum() == 0:
                f[:] = 1.0
            f /= f.sum()
        o = rng.normal(size=(n, 3, 3))
        prev = rng.normal(size=(n, 3, 3))
        ev += 1
        try:
            msgs = gbs_native_check(o, f, chi, prev)
        except Exception as e:
            msgs = [f"raised {type(e).__name__}: {e}"]
        if msgs:
            fails.append(dict(case=f"{seed}.{it}", checker="contracts.gbslib:nat_gbs_case", inputs=dict(o=o.tolist() if n <= 8 else None, f=f.tolist() if n <= 60 else None, chi=chi, prev=prev.tolist() if n <= 8 else None, seed=int(seed), it=it, count=count),
                              what="; ".join(msgs)))
    return dict(evaluations=ev, failures=fails[:4])


def nat_gbs_case(o=None, f=None, chi=0.3, prev=None, seed=0, it=0, count=1):
    if o is not None and f is not None and prev is not None:
        msgs = gbs_native_check(o, f, chi, prev)
        return dict(ok=not msgs, messages=msgs)
    r = nat_gbs_search(seed, count)
    hit = [x for x in r["failures"] if x["case"] == f"{seed}.{it}"]
    return dict(ok=not hit, failures=hit)


def _rp_search(kind, chi, fsym_g, fsym_h, n):
    """replay(model): native search seeded with the generic-grain values of the solver's model."""

    def replay(model):
        hint = dict(chi=E.model_value(model, chi.z), fg=E.model_value(model, fsym_g), fh=E.model_value(model, fsym_h), n=E.model_value(model, z3.ToReal(n.z)))
        fn = "nat_gbs_search" if kind == "gbs" else "nat_extract_search"
        res = native.call("contracts.gbslib", fn, dict(seed=12345, count=300, hint=hint))
        if res["failures"]:
            f0 = res["failures"][0]
            return True, dict(checker=f0["checker"], inputs=f0["inputs"], observed=f0["what"], what=f0["what"], seeded_by=hint)
        return False, dict(note="native search seeded by the model found no failing input", hint=hint)

    return replay


@_guarded
def gbs_facets(run, which=("C09", "C01", "C07")):
    """Facets of the real apply_gbs for symbolic n_grains."""
    U = real_module(MOD)
    fn = f"{MOD}.apply_gbs"
    g = E.rebind_module(U, np_shim=LA.NPLift())
    f_ = g.get("apply_gbs")
    if f_ is None:
        run.undecided("apply_gbs", fn, "function not found")
        return
    n = SymInt(z3.Int("n"))
    chi = sym("chi")
    c = E.Ctx([n.z >= 1, chi.z >= 0, chi.z < 1])
    E.Ctx.cur = c
    sg = LA.Sigma(n)
    LA.Sigma.cur = sg
    try:
        c.reset_path([])
        O, f, prev = LA.larr("o", n, (3, 3)), LA.larr("f", n, ()), LA.larr("prev", n, (3, 3))
        fG, fH = S.zz(_at(f, G)), S.zz(_at(f, H2))
        # precondition: fractions non-negative and summing to one
        pre = [fG >= 0, fH >= 0, G >= 0, G < n.z, H2 >= 0, H2 < n.z]
        SUMf = sg.declare("SUMf", lambda i: _at(f, i))
        pre.append(SUMf == 1)
        Oin, fin = O.copy(), f.copy()
        try:
            O2, f2 = f_(Oin, fin, chi, prev, n)
        except E.UNSUPPORTED_EXC as e:
            run.undecided("apply_gbs/lifted run", fn, f"unsupported construct: {e}")
            return
        Hc = list(c.hyps) + pre
        rp = _rp_search("gbs", chi, fG, fH, n)
        thr = chi.z / z3.ToReal(n.z)
        mG, mH = fG < thr, fH < thr
        uG = z3.If(mG, thr, fG)
        uH = z3.If(mH, thr, fH)
        sums = [k for k in sg.sums if k != "SUMf"]
        if len(sums) != 1:
            run.undecided("apply_gbs/renormalisation sum", fn, f"expected one sum symbol, found {sums}")
            return
        S0 = z3.Real(sums[0])
        run.prove("apply_gbs/renormalising sum is over floor-or-original volumes", fn, Hc, sg.sums[sums[0]] == uG, replay=rp)
        # --- Sigma-law derivations (A-SIGMA; lean/PvSigma.lean)
        run.prove("apply_gbs/MONO side condition: floored volume >= original volume", fn, Hc, uG >= fG, replay=rp)
        mono1 = S0 >= SUMf  # law MONO
        run.prove("apply_gbs/MONO+CONST side condition: floored volume <= original + chi/n", fn, Hc, uG <= fG + thr, replay=rp)
        mono2 = S0 <= SUMf + z3.ToReal(n.z) * thr  # laws MONO, LIN(additivity), CONST
        facts = [mono1, mono2]
        run.prove("apply_gbs/S >= 1 > 0 (renormalisation never divides by zero)", fn, Hc + facts, z3.And(S0 >= 1, S0 > 0), replay=rp)
        run.prove("apply_gbs/S <= 1 + chi", fn, Hc + facts, E.clear_formula(S0 <= 1 + chi.z) if False else S0 <= 1 + chi.z, replay=rp)
        Hs = Hc + facts + [S0 >= 1, S0 <= 1 + chi.z]
        # safety obligations recorded during the run (divisions by n and by the sum)
        for k, o in enumerate(c.oblig):
            run.prove(f"apply_gbs/safety.{o.name}#{k}", fn, Hs + list(o.pc), o.goal, replay=rp, kind="safety")
        f2G, f2H = S.zz(_at(f2, G)), S.zz(_at(f2, H2))
        O2G, OG, PG = _at(O2, G), _at(O, G), _at(prev, G)
        Hd = Hs + list(c.pc)
        if "C09" in which or "C01" in which:
            run.prove("apply_gbs/floor: f_g < chi/n  =>  out_f[g]*S == chi/n", fn, Hd + [mG], E.clear_formula(f2G * S0 == thr), replay=rp)
            run.prove("apply_gbs/scale: f_g >= chi/n  =>  out_f[g]*S == f_g (relative volumes of unfloored grains kept)", fn, Hd + [z3.Not(mG)], E.clear_formula(f2G * S0 == fG), replay=rp)
            goals = [S.zz(a) == S.zz(b) for a, b in zip(np.asarray(O2G, dtype=object).flat, np.asarray(PG, dtype=object).flat)]
            run.prove("apply_gbs/frozen: f_g < chi/n  =>  out_o[g] == orientations_prev[g]", fn, Hd + [mG], z3.And(*goals), replay=rp)
            goals = [S.zz(a) == S.zz(b) for a, b in zip(np.asarray(O2G, dtype=object).flat, np.asarray(OG, dtype=object).flat)]
            run.prove("apply_gbs/kept: f_g >= chi/n  =>  out_o[g] == orientations[g]", fn, Hd + [z3.Not(mG)], z3.And(*goals), replay=rp)
            run.prove("apply_gbs/tie: f_g == chi/n is not floored", fn, Hd + [fG == thr], z3.Not(mG), replay=rp)
            # sum to one: out_f[g] == (1/S) * u(g), 1/S free of g  => (LIN) SUM out_f == (1/S) * S == 1
            run.prove("apply_gbs/LIN side condition: out_f[g] == (1/S) * u(g)", fn, Hd, E.clear_formula(f2G == (1 / S0) * uG), replay=rp)
            run.exact("apply_gbs/LIN coefficient 1/S free of g", fn, LA.Sigma.free_of_g(1 / S0), "the renormalisation factor does not mention the grain index")
            SUMout = z3.Real("SUMout")
            run.prove("apply_gbs/sum of output fractions == 1", fn, Hs + [E.clear_formula(SUMout == (1 / S0) * S0)], SUMout == 1, replay=rp,
                      detail="SUMout == (1/S)*S (law LIN) and S != 0  ==>  SUMout == 1")
            run.prove("apply_gbs/output fractions non-negative", fn, Hd, E.clear_formula(f2G >= 0), replay=rp)
            lo = thr / (1 + chi.z)
            run.prove("apply_gbs/no output fraction below chi/(n(1+chi))", fn, Hd, E.clear_formula(f2G >= lo), replay=rp)
            run.prove("apply_gbs/order of grain volumes preserved", fn, Hd + [fG <= fH], E.clear_formula(f2G <= f2H), replay=rp)
            goals = [S.zz(a) == S.zz(b) for a, b in zip(np.asarray(O2G, dtype=object).flat, np.asarray(OG, dtype=object).flat)]
            run.prove("apply_gbs/chi == 0: no grain frozen or floored", fn, Hd + [chi.z == 0], z3.And(z3.Not(mG), E.clear_formula(f2G * S0 == fG), *goals), replay=rp)
        if "C07" in which:
            # identity when no fraction is below chi/n: S == SUMf == 1 by CONG, so out == in
            cong = S0 == SUMf  # law CONG under the hypothesis that no grain is masked (u(g) == f(g) for every g)
            run.prove("apply_gbs/CONG side condition: nothing below threshold => u(g) == f(g)", fn, Hc + [z3.Not(mG)], uG == fG, replay=rp)
            goals = [S.zz(a) == S.zz(b) for a, b in zip(np.asarray(O2G, dtype=object).flat, np.asarray(OG, dtype=object).flat)]
            run.prove("apply_gbs/identity when no fraction is below chi/n", fn, Hd + [z3.Not(mG), cong], z3.And(E.clear_formula(f2G == fG), *goals), replay=rp)
        # frame
        run.exact("apply_gbs/frame: orientations_prev is not written", fn, prev.writes == 0, f"{prev.writes} writes to orientations_prev")
        run.exact("apply_gbs/frame: results are the (in-place updated) argument arrays", fn, O2 is Oin and f2 is fin, "returns its first two arguments")
        run.canary("apply_gbs/canary", fn, Hd, f2G == fG + 1)
        run.cover("apply_gbs/precondition satisfiable", Hd)
    finally:
        E.Ctx.cur = None
        LA.Sigma.cur = None


# ----------------------------------------------------------------------------- extract_vars
def extract_native_check(y, n):
    import pydrex.utils as U

    y = np.array(y, float)
    y_in = y.copy()
    F, O, f = U.extract_vars(y, n)
    msgs = []
    if not np.array_equal(y, y_in):
        msgs.append("y was modified")
    if F.shape != (3, 3) or O.shape != (n, 3, 3) or f.shape != (n,):
        return msgs + [f"shapes {F.shape} {O.shape} {f.shape}"]
    if not np.array_equal(F, y_in[:9].reshape(3, 3)):
        msgs.append("F is not y[:9] reshaped row-major")
    if not np.array_equal(O, np.clip(y_in[9:9 * n + 9].reshape(n, 3, 3), -1, 1)):
        msgs.append("orientations are not the clipped orientation block")
    fr = np.clip(y_in[9 * n + 9:], 0, None)
    if not np.allclose(f * fr.sum(), fr, rtol=1e-13, atol=1e-300) or abs(f.sum() - 1) > 1e-12 or np.any(f < 0):
        msgs.append("fractions are not max(y_f,0)/sum")
    if np.shares_memory(O, y) or np.shares_memory(f, y):
        msgs.append("orientations/fractions alias the state vector")
    return msgs


def nat_extract_search(seed, count, hint=None):
    rng = np.random.default_rng(seed)
    fails, ev = [], 0
    for it in range(count):
        n = int(rng.choice([1, 2, 5, 40]))
        y = rng.normal(size=10 * n + 9) * rng.choice([0.5, 2.0])
        y[9 * n + 9:] = rng.normal(size=n) * 0.3 + 0.2
        if np.clip(y[9 * n + 9:], 0, None).sum() <= 0:
            y[-1] = 1.0
        ev += 1
        try:
            msgs = extract_native_check(y, n)
        except Exception as e:
            msgs = [f"raised {type(e).__name__}: {e}"]
        if msgs:
            fails.append(dict(case=f"{seed}.{it}", checker="contracts.gbslib:nat_extract_case", inputs=dict(y=y.tolist(), n=n), what="; ".join(msgs)))
    return dict(evaluations=ev, failures=fails[:4])


def nat_extract_case(y, n):
    msgs = extract_native_check(y, n)
    return dict(ok=not msgs, messages=msgs)


@_guarded
def extract_facets(run):
    U = real_module(MOD)
    fn = f"{MOD}.extract_vars"
    g = E.rebind_module(U, np_shim=LA.NPLift())
    f_ = g.get("extract_vars")
    if f_ is None:
        run.undecided("extract_vars", fn, "function not found")
        return
    n = SymInt(z3.Int("n"))
    c = E.Ctx([n.z >= 1])
    E.Ctx.cur = c
    sg = LA.Sigma(n)
    LA.Sigma.cur = sg
    try:
        c.reset_path([])
        F9 = symarr("yF", (9,))
        yO, yf = LA.larr("yO", n, (3, 3)), LA.larr("yf", n, ())
        y = LA.YVec(n, F9, yO, yf)
        mass = yf.clip(0, None).sum()
        pre = [S.zz(mass) > 0, G >= 0, G < n.z]
        try:
            F, O, f = f_(y, n)
        except E.UNSUPPORTED_EXC as e:
            run.undecided("extract_vars/lifted run", fn, f"unsupported construct: {e}")
            return
        Hc = list(c.hyps) + pre
        yfG = S.zz(_at(yf, G))
        rp = _rp_search("extract", sym("chi"), yfG, yfG, n)
        for k, o in enumerate(c.oblig):
            run.prove(f"extract_vars/safety.{o.name}#{k}", fn, Hc + list(o.pc), o.goal, replay=rp, kind="safety")
        Hd = Hc + list(c.pc)
        prove_entries(run, "extract_vars/F == y[:9] reshaped row-major", fn, Hd, F, np.asarray(F9, dtype=object).reshape(3, 3), replay=rp)
        run.exact("extract_vars/F is a view of y[:9]", fn, np.shares_memory(np.asarray(F), np.asarray(F9)), "deformation gradient block is returned as a view (documented layout)")
        OG, yOG = _at(O, G), _at(yO, G)
        goals = []
        for a, b in zip(np.asarray(OG, dtype=object).flat, np.asarray(yOG, dtype=object).flat):
            az, bz = S.zz(a), S.zz(b)
            goals += [az >= -1, az <= 1, z3.Implies(z3.And(bz >= -1, bz <= 1), az == bz), z3.Implies(bz > 1, az == 1), z3.Implies(bz < -1, az == -1)]
        run.prove("extract_vars/orientation entries == clip(y-block, -1, 1) in [-1, 1]", fn, Hd, z3.And(*goals), replay=rp)
        sums = list(sg.sums)
        if len(sums) != 1:
            run.undecided("extract_vars/sum", fn, f"expected one sum symbol, found {sums}")
            return
        S0 = z3.Real(sums[0])
        fGz = S.zz(_at(f, G))
        pos = z3.If(yfG < 0, z3.RealVal(0), yfG)
        run.prove("extract_vars/fractions[g] * S == max(y_f[g], 0), S = sum max(y_f, 0)", fn, Hd, z3.And(sg.sums[sums[0]] == pos, E.clear_formula(fGz * S0 == pos)), replay=rp)
        run.prove("extract_vars/fractions non-negative", fn, Hd, E.clear_formula(fGz >= 0), replay=rp)
        run.prove("extract_vars/LIN side condition: fractions[g] == (1/S) * max(y_f[g], 0)", fn, Hd, E.clear_formula(fGz == (1 / S0) * pos), replay=rp)
        SUMout = z3.Real("SUMout")
        run.prove("extract_vars/fractions sum to 1", fn, Hd + [E.clear_formula(SUMout == (1 / S0) * S0)], SUMout == 1, replay=rp, detail="law LIN: SUMout == (1/S)*S, S > 0")
        # idempotence lemma (C01/C09): on well-formed blocks extraction is the identity
        wf = [z3.And(S.zz(b) >= -1, S.zz(b) <= 1) for b in np.asarray(yOG, dtype=object).flat] + [yfG >= 0]
        cong = S0 == 1  # law CONG: max(y_f,0) == y_f pointwise and SUM y_f == 1
        goals = [S.zz(a) == S.zz(b) for a, b in zip(np.asarray(OG, dtype=object).flat, np.asarray(yOG, dtype=object).flat)] + [E.clear_formula(fGz == yfG)]
        run.prove("extract_vars/CONG side condition: y_f >= 0 => max(y_f, 0) == y_f", fn, Hc + wf, pos == yfG, replay=rp)
        run.prove("extract_vars/identity on well-formed blocks (entries in [-1,1], fractions >= 0 summing to 1)", fn, Hd + wf + [cong], z3.And(*goals), replay=rp)
        run.exact("extract_vars/frame: y is not written; orientations and fractions are fresh arrays", fn, not y.writes and O is not yO and f is not yf and yO.writes == 0 and yf.writes == 0,
                  "no assignment into the state vector; clip() results are new arrays")
        run.canary("extract_vars/canary", fn, Hd, fGz == yfG + 1)
    finally:
        E.Ctx.cur = None
        LA.Sigma.cur = None
