"""Facets of the update cone (Mineral.update_orientations and its closures) used by C01 C05 C06 C07 C08 C09."""
import ast
import inspect
import itertools
import textwrap

import numpy as np
import z3

from contracts import updlib as UL
from pv import engine as E
from pv import larr as LA
from pv import sym as S
from pv.facets import prove_entries
from pv.sym import Sym, SymInt, sym, symarr
from pv.util import Z, alleq, real_module

FN = "pydrex.minerals.Mineral.update_orientations"
FN_RHS = "pydrex.minerals.Mineral.update_orientations.<eval_rhs>"
FN_STEP = "pydrex.minerals.Mineral.update_orientations.<perform_step>"
G = LA.G


def consts_of(t, acc=None, seen=None):
    if acc is None:
        acc, seen = set(), set()
    if t.get_id() in seen:
        return acc
    seen.add(t.get_id())
    if z3.is_app(t):
        if t.num_args() == 0 and t.decl().kind() == z3.Z3_OP_UNINTERPRETED:
            acc.add(t.decl().name())
        elif t.decl().kind() == z3.Z3_OP_UNINTERPRETED:
            acc.add(t.decl().name() + "()")
        for c in t.children():
            consts_of(c, acc, seen)
    return acc


def consts_arr(a):
    acc = set()
    for v in np.asarray(a, dtype=object).flat:
        if isinstance(v, Sym):
            consts_of(v.z, acc, set())
    return acc


def explore(run, name, **kw):
    h = UL.Harness(**kw)
    ex = h.explore()
    run.paths += len(ex.paths)
    if not ex.complete or ex.unsupported:
        run.undecided(name, FN, "symbolic run of update_orientations incomplete: " + "; ".join(ex.unsupported[:2]))
        return h, None
    bad = [p for p in ex.paths if p.exc is not None]
    if bad:
        e = bad[0].exc
        run.undecided(name, FN, f"harness-level exception {type(e).__name__}: {str(e)[:200]}")
        return h, None
    if not ex.paths:
        run.checker_failures.append(f"{name}: no feasible path")
        return h, None
    return h, ex


def path_hyps(ex, p):
    return list(ex.ctx.hyps) + list(p.pc)


# ----------------------------------------------------------------------------- C06
def c06_facets(run, configs=(dict(phase=0, fabric=0, regime=4), dict(phase=1, fabric=5, regime=6, assemblage=(1,)), dict(phase=0, fabric=2, regime=4, assemblage=(1, 0), own_index=1))):
    fblocks = []
    for cfg in configs:
        tag = f"C06[{cfg.get('phase')},{cfg.get('fabric')},{cfg.get('regime')}]"
        kw = dict(cfg)
        kw.pop("own_index", None)
        h, ex = explore(run, tag, **kw)
        if ex is None:
            continue
        for pi, p in enumerate(ex.paths):
            tr = p.value
            H = path_hyps(ex, p)
            t = f"{tag}/path{pi}"
            if tr.exc is not None:
                run.prove(f"{t}/no-exception", FN, H, z3.BoolVal(False), structural=True, detail=f"update raised {type(tr.exc).__name__}: {tr.exc}")
                continue
            y0 = tr.lsoda["y0"]
            F9 = y0.block(0) if isinstance(y0, LA.Packed) else y0[:9]
            prove_entries(run, f"{t}/y_start[:9]==F0.flatten()", FN, H, F9, h.F0.flatten())
            for k, (tk, yin, out, exc) in enumerate(tr.rhs):
                if exc is not None or out is None:
                    run.prove(f"{t}/rhs{k}/returns", FN_RHS, H, z3.BoolVal(False), structural=True, detail=f"right-hand side raised/returned None: {exc}")
                    continue
                Fin = yin.F9.reshape(3, 3) if isinstance(yin, LA.YVec) else yin[:9].reshape(3, 3)
                blk = out.block(0) if isinstance(out, LA.Packed) else out[:9]
                want = S._matmul(h.Lm, Fin).flatten()
                prove_entries(run, f"{t}/rhs{k}/F-block==(L@F).flatten()", FN_RHS, H, blk, want, replay=_rp_fblock(h, Fin, cfg))
                names = consts_arr(blk)
                allowed = consts_arr(h.Lm) | consts_arr(Fin)
                run.exact(f"{t}/rhs{k}/F-block depends only on L and F", FN_RHS, names <= allowed, f"free symbols {sorted(names - allowed)[:5]} beyond L, F")
                import re as _re
                fblocks.append(tuple(_re.sub(r"yF\d+", "yF", str(S.zz(v))) for v in blk))
            # velocity gradient evaluated at (t, position(t)) of the same t
            ok = True
            for (tt, xx) in tr.vg_calls:
                if not isinstance(xx, UL.Pos) or not z3.eq(z3.simplify(S.zz(xx.t)), z3.simplify(S.zz(tt))):
                    ok = False
            rts = [r[0] for r in tr.rhs]
            ok_t = all(any(z3.eq(S.zz(tt), S.zz(rt)) for (tt, _) in tr.vg_calls) for rt in rts)
            run.exact(f"{t}/L evaluated at (t, x(t)) for the solver's t", FN_RHS, ok and ok_t, "get_velocity_gradient(t, get_position(t)) with the same t the solver passed")
            # perform_step never writes y[:9]
            okw = all((isinstance(y, LA.YVec) and set(y.writes) <= {"9:"}) or not isinstance(y, LA.YVec) for y in tr.y_after_steps)
            yl = tr.y_after_steps[-1]
            Fl = yl.F9 if isinstance(yl, LA.YVec) else yl[:9]
            havoc = symarr(f"yF{tr.steps}", (9,)) if isinstance(yl, LA.YVec) else None
            if havoc is not None:
                okw = okw and all(z3.eq(S.zz(a), S.zz(b)) for a, b in zip(Fl.flat, havoc.flat))
            run.exact(f"{t}/perform_step leaves y[:9] as the solver set it", FN_STEP, okw, "only y[9:] is assigned after a step")
            prove_entries(run, f"{t}/returns y_final[:9].reshape(3,3)", FN, H, tr.ret, np.asarray(Fl, dtype=object).reshape(3, 3))
    if fblocks:
        run.exact("C06/F-block identical for every phase, fabric, regime and assemblage", FN_RHS, len(set(fblocks)) == 1, f"{len(set(fblocks))} distinct F-block expressions over {len(configs)} configurations")


def update_all_facets(run):
    """update_all hands the same starting F to every mineral and returns the last result."""
    M = real_module("pydrex.minerals")
    fn = "pydrex.minerals.update_all"
    g = E.rebind_module(M)
    f = g.get("update_all")
    if f is None:
        run.undecided("update_all", fn, "not found")
        return
    calls = []

    class Stub:
        def __init__(s, k):
            s.k = k

        def update_orientations(s, params=None, deformation_gradient=None, get_velocity_gradient=None, pathline=None, get_regime=None, **kw):
            calls.append((s.k, params, deformation_gradient, get_velocity_gradient, pathline, get_regime, kw))
            return ("F", s.k)

    for nm in (1, 2, 3):
        calls.clear()
        F0, P, gL, pl, gr = object(), {"p": 1}, object(), (0, 1, object()), object()
        try:
            ret = f([Stub(k) for k in range(nm)], P, F0, gL, pl, gr, atol=1)
        except Exception as e:
            run.exact(f"update_all[{nm} minerals]/runs", fn, False, f"raised {type(e).__name__}: {e}", info=None)
            continue
        ok = len(calls) == nm and [c[0] for c in calls] == list(range(nm)) and all(c[2] is F0 and c[1] is P and c[3] is gL and c[4] is pl and c[5] is gr and c[6] == {"atol": 1} for c in calls)
        run.exact(f"update_all[{nm} minerals]/every mineral gets the same starting F, params, callables", fn, ok, "argument identity at each call")
        run.exact(f"update_all[{nm} minerals]/returns the last mineral's result", fn, ret == ("F", nm - 1), f"returned {ret}")


# ----------------------------------------------------------------------------- C08
def c08_facets(run):
    for assemblage in ((0,), (1,), (0, 1), (1, 0)):
        for phase in assemblage:
            fabric = 0 if phase == 0 else 5
            tag = f"C08[assemblage={assemblage},phase={phase}]"
            h, ex = explore(run, tag, phase=phase, fabric=fabric, assemblage=assemblage, steps_choices=(1,))
            if ex is None:
                continue
            own = assemblage.index(phase)
            for pi, p in enumerate(ex.paths):
                tr = p.value
                if tr.exc is not None:
                    run.prove(f"{tag}/path{pi}/no-exception", FN, path_hyps(ex, p), z3.BoolVal(False), structural=True, detail=f"raised {type(tr.exc).__name__}: {tr.exc}")
                    continue
                ok = bool(tr.deriv) and all(isinstance(d["volume_fraction"], Sym) and z3.eq(d["volume_fraction"].z, h.phis[own].z) for d in tr.deriv)
                run.exact(f"{tag}/path{pi}/volume fraction handed to the solver is the mineral's own", FN_RHS, ok, "phase_fractions[phase_assemblage.index(self.phase)]")
                okp = all(int(d["phase"]) == phase and int(d["fabric"]) == fabric and isinstance(d["gbm_mobility"], Sym) and z3.eq(d["gbm_mobility"].z, h.params["gbm_mobility"].z) for d in tr.deriv)
                run.exact(f"{tag}/path{pi}/solver gets the mineral's own phase, fabric and the unscaled mobility", FN_RHS, okp, "derivatives(phase=self.phase, fabric=self.fabric, gbm_mobility=params[...])")


def hidden_state_scan(run, modules=("pydrex.minerals", "pydrex.core", "pydrex.utils")):
    """No module-level mutable state is written by the update cone: AST scan for global/nonlocal declarations and
    stores to module attributes / module-level containers inside functions."""
    for modname in modules:
        mod = real_module(modname)
        src = inspect.getsource(mod)
        tree = ast.parse(src)
        module_names = {t.id for n in tree.body if isinstance(n, (ast.Assign, ast.AnnAssign)) for t in (n.targets if isinstance(n, ast.Assign) else [n.target]) if isinstance(t, ast.Name)}
        bad = []
        for fn in ast.walk(tree):
            if not isinstance(fn, (ast.FunctionDef, ast.AsyncFunctionDef)):
                continue
            local = {a.arg for a in fn.args.args + fn.args.kwonlyargs} | ({fn.args.vararg.arg} if fn.args.vararg else set()) | ({fn.args.kwarg.arg} if fn.args.kwarg else set())
            for n in ast.walk(fn):
                if isinstance(n, ast.Name) and isinstance(n.ctx, ast.Store):
                    local.add(n.id)
            for n in ast.walk(fn):
                if isinstance(n, (ast.Global, ast.Nonlocal)):
                    bad.append((fn.name, n.lineno, "global/nonlocal " + ",".join(n.names)))
                if isinstance(n, (ast.Subscript, ast.Attribute)) and isinstance(n.ctx, (ast.Store, ast.Del)):
                    base = n.value
                    while isinstance(base, (ast.Subscript, ast.Attribute)):
                        base = base.value
                    if isinstance(base, ast.Name) and base.id in module_names and base.id not in local:
                        bad.append((fn.name, n.lineno, f"store into module-level {base.id}"))
                if isinstance(n, ast.Call) and isinstance(n.func, ast.Attribute) and n.func.attr in ("append", "update", "setdefault", "add", "extend", "pop", "clear", "insert", "remove"):
                    base = n.func.value
                    while isinstance(base, (ast.Subscript, ast.Attribute)):
                        base = base.value
                    if isinstance(base, ast.Name) and base.id in module_names and base.id not in local:
                        bad.append((fn.name, n.lineno, f"mutating call on module-level {base.id}"))
                if isinstance(n, ast.FunctionDef) and any(isinstance(d, (ast.List, ast.Dict, ast.Set)) for d in n.args.defaults + n.args.kw_defaults if d is not None):
                    bad.append((n.name, n.lineno, "mutable default argument"))
        run.exact(f"no hidden module state written in {modname}", modname, not bad, f"{bad[:4]}" if bad else "no global/nonlocal, no store or mutating call on module-level names, no mutable defaults",
                  info=None)


# ----------------------------------------------------------------------------- C05
def c05_facets(run):
    kk = sym("kscale")
    for regime in (4, 6):
        tag = f"C05[regime={regime}]"
        h1, ex1 = explore(run, tag + "/run1", regime=regime, assemblage=(0, 1))
        h2, ex2 = explore(run, tag + "/run2", regime=regime, assemblage=(0, 1), L_scale=kk, t_scale=kk)
        if ex1 is None or ex2 is None:
            continue
        if len(ex1.paths) != len(ex2.paths):
            run.undecided(tag, FN, f"scaled and unscaled runs have different numbers of paths ({len(ex1.paths)} vs {len(ex2.paths)})")
            continue
        for pi, (p1, p2) in enumerate(zip(ex1.paths, ex2.paths)):
            t1_, t2_ = p1.value, p2.value
            t = f"{tag}/path{pi}"
            if t1_.exc is not None or t2_.exc is not None:
                run.prove(f"{t}/no-exception", FN, path_hyps(ex1, p1), z3.BoolVal(False), structural=True, detail=f"raised {t1_.exc} / {t2_.exc}")
                continue
            # relational contract of the eigenvalue stub (A-EIG): eig(k D) = k eig(D) for k > 0
            rel = [kk.z > 0]
            if len(t1_.eig) != len(t2_.eig) or t1_.steps != t2_.steps:
                run.undecided(t, FN, "different call structure in the scaled run")
                continue
            for (D1, e1), (D2, e2) in zip(t1_.eig, t2_.eig):
                for a, b in zip(e1.flat, e2.flat):
                    rel.append(S.zz(b) == kk.z * S.zz(a))
            # eigen symbols share names between the runs: make the second run's distinct
            ren = []
            for (D2, e2) in t2_.eig:
                for b in e2.flat:
                    ren.append((S.zz(b), z3.Real(str(S.zz(b)) + "_k")))
            def R2(term):
                return z3.substitute(term, *ren) if ren else term
            rel = [kk.z > 0] + [z3.Real(str(S.zz(b)) + "_k") == kk.z * S.zz(a) for (D1, e1), (D2, e2) in zip(t1_.eig, t2_.eig) for a, b in zip(e1.flat, e2.flat)]
            H = list(ex1.ctx.hyps) + list(p1.pc) + list(p1.lazy) + [R2(c) for c in p2.pc] + [R2(c) for c in p2.lazy] + rel
            # set-up covariance
            kw1, kw2 = t1_.lsoda["kw"], t2_.lsoda["kw"]
            run.exact(f"{t}/setup: rtol constant, same bands", FN, kw1.get("rtol") == kw2.get("rtol") == 1e-6 and kw1.get("lband") is kw2.get("lband") and set(kw1) == set(kw2) == {"atol", "rtol", "first_step", "lband", "uband"},
                      f"LSODA keywords {sorted(kw1)}; rtol={kw1.get('rtol')}")
            _same_packed(run, f"{t}/setup: y_start independent of the rate", H, t1_.lsoda["y0"], t2_.lsoda["y0"], R2)
            _same_packed(run, f"{t}/setup: atol independent of the rate", H, kw1["atol"], kw2["atol"], R2)
            names = set()
            for part in (kw1["atol"].parts if isinstance(kw1["atol"], LA.Packed) else [kw1["atol"]]):
                names |= _names_any(part)
            run.exact(f"{t}/setup: atol mentions neither time nor velocity gradient", FN, not any(nm.startswith(("t0", "t1", "L_", "kscale")) for nm in names), f"{sorted(names)[:6]}")
            run.prove(f"{t}/setup: first_step scales with 1/k", FN, H, E.eq_cleared(R2(S.zz(kw2["first_step"])) * kk.z, S.zz(kw1["first_step"])), structural=True)
            run.prove(f"{t}/setup: first_step == |t1-t0|/10", FN, H, S.zz(kw1["first_step"]) == S.zz(abs(h1.t1 - h1.t0) * 1e-1), structural=True)
            run.prove(f"{t}/setup: time span scales with 1/k", FN, H, z3.And(E.eq_cleared(S.zz(t2_.lsoda["t0"]) * kk.z, S.zz(t1_.lsoda["t0"])), E.eq_cleared(S.zz(t2_.lsoda["t_bound"]) * kk.z, S.zz(t1_.lsoda["t_bound"]))), structural=True)
            # right-hand side homogeneity, block by block, with the solver stub's arguments compared
            for k, ((tk1, y1, o1, x1), (tk2, y2, o2, x2)) in enumerate(zip(t1_.rhs, t2_.rhs)):
                if o1 is None or o2 is None:
                    run.prove(f"{t}/rhs{k}/returns", FN_RHS, H, z3.BoolVal(False), structural=True, detail="right-hand side failed")
                    continue
                d1, d2 = t1_.deriv[k], t2_.deriv[k]
                b1 = [o1.block(i) for i in range(3)]
                b2 = [o2.block(i) for i in range(3)]
                goals = [E.eq_cleared(R2(S.zz(b)), kk.z * S.zz(a)) for a, b in zip(np.asarray(b1[0], dtype=object).flat, np.asarray(b2[0], dtype=object).flat)]
                run.prove(f"{t}/rhs{k}/dF block homogeneous of degree 1", FN_RHS, H, z3.And(*goals), structural=True)
                same = all(_same_val(d1[key], d2[key]) for key in d1 if key not in ("strain_rate", "velocity_gradient", "deformation_gradient_spin", "orientations", "fractions"))
                run.exact(f"{t}/rhs{k}/other solver arguments identical", FN_RHS, same, "regime, phase, fabric, n_grains, exponents, efficiency, mobility, volume fraction")
                sameOF = _same_larr(d1["orientations"], d2["orientations"]) and _same_larr(d1["fractions"], d2["fractions"])
                run.exact(f"{t}/rhs{k}/orientations and fractions handed to the solver identical", FN_RHS, sameOF, "extract_vars(y) of the same y")
                # the normalising strain rate of each run (the divisor of the solver's strain_rate argument)
                dn1 = E.denominators(S.zz(np.asarray(d1["strain_rate"], dtype=object).flat[1]))
                dn2 = E.denominators(R2(S.zz(np.asarray(d2["strain_rate"], dtype=object).flat[1])))
                dn1 = [d for d in dn1 if not z3.is_rational_value(d)]
                dn2 = [d for d in dn2 if not z3.is_rational_value(d)]
                if not dn1 and not dn2:
                    # no normalisation on this path (vanishing strain rate): both runs hand a zero strain rate to the solver,
                    # whose null contract (C07: zero strain rate => zero rates) makes the texture blocks vanish in both runs
                    z1 = z3.And(*[S.zz(v) == 0 for v in np.asarray(d1["strain_rate"], dtype=object).flat])
                    z2 = z3.And(*[R2(S.zz(v)) == 0 for v in np.asarray(d2["strain_rate"], dtype=object).flat])
                    run.prove(f"{t}/rhs{k}/vanishing strain rate: solver gets strain_rate == 0 in both runs", FN_RHS, H, z3.And(z1, z2), structural=True)
                    continue
                if len(dn1) != 1 or len(dn2) != 1:
                    run.undecided(f"{t}/rhs{k}/normalisation", FN_RHS, "could not identify the normalising strain rate")
                    continue
                s1, s2 = z3.Real("srm!1"), z3.Real("srm!2")
                run.prove(f"{t}/rhs{k}/lemma: max principal strain rate scales with k", FN_RHS, rel, dn2[0] == kk.z * dn1[0], structural=True)
                Ha = [kk.z > 0, s2 == kk.z * s1, s1 != 0, s2 != 0]

                def ab(term):
                    return z3.substitute(term, (dn1[0], s1), (dn2[0], s2))

                for key in ("strain_rate", "velocity_gradient"):
                    goals = [E.eq_cleared(ab(R2(S.zz(b))), ab(S.zz(a))) for a, b in zip(np.asarray(d1[key], dtype=object).flat, np.asarray(d2[key], dtype=object).flat)]
                    run.prove(f"{t}/rhs{k}/solver argument {key} is rate-independent (normalised)", FN_RHS, Ha, z3.And(*goals), structural=True)
                for bi, nm in ((1, "orientation"), (2, "fraction")):
                    a, b = b1[bi].at(G), b2[bi].at(G)
                    goals = [E.eq_cleared(ab(R2(S.zz(y_))), kk.z * ab(S.zz(x_))) for x_, y_ in zip(np.asarray(a, dtype=object).flat, np.asarray(b, dtype=object).flat)]
                    run.prove(f"{t}/rhs{k}/{nm} block homogeneous of degree 1", FN_RHS, Ha, z3.And(*goals), structural=True)
    # the dislocation regimes of the solver ignore the spin argument (which is not rate-normalised)
    from contracts import corelib as CL

    core = CL.load()
    for regime in (4, 6):
        c = E.Ctx([])
        E.Ctx.cur = c
        try:
            c.reset_path([])
            dr = CL.DerivRun(core, core.DeformationRegime(regime))
            dO, df = dr.run()
            names = _names_any(dO.at(G)) | _names_any(df.at(G))
            run.exact(f"C05/derivatives[regime={regime}] does not read deformation_gradient_spin", "pydrex.core.derivatives", not any(nm.startswith("W_") for nm in names), "no W symbol in the outputs")
        except E.UNSUPPORTED_EXC as e:
            run.undecided(f"C05/derivatives[regime={regime}] spin-independence", "pydrex.core.derivatives", str(e))
        finally:
            E.Ctx.cur = None
            LA.Sigma.cur = None
            LA.LoopRule.cur = None


def _names_any(x):
    if isinstance(x, LA.Flat):
        x = x.arr
    if isinstance(x, LA.LArr):
        x = x.at(G)
    if isinstance(x, Sym):
        return consts_of(x.z)
    if isinstance(x, np.ndarray):
        return consts_arr(x)
    return set()


def _same_val(a, b):
    if a is b:
        return True
    if isinstance(a, Sym) or isinstance(b, Sym):
        return isinstance(a, Sym) and isinstance(b, Sym) and z3.eq(a.z, b.z)
    if isinstance(a, SymInt) and isinstance(b, SymInt):
        return z3.eq(a.z, b.z)
    try:
        return bool(a == b)
    except Exception:
        return False


def _same_larr(a, b):
    if isinstance(a, LA.LArr) and isinstance(b, LA.LArr):
        return all(z3.eq(z3.simplify(S.zz(x)), z3.simplify(S.zz(y))) for x, y in zip(np.asarray(a.at(G), dtype=object).flat, np.asarray(b.at(G), dtype=object).flat))
    return False


def _same_packed(run, name, H, a, b, R2):
    pa = a.parts if isinstance(a, LA.Packed) else [a]
    pb = b.parts if isinstance(b, LA.Packed) else [b]
    goals = []
    for x, y in zip(pa, pb):
        if isinstance(x, LA.Flat):
            x, y = x.arr, y.arr
        if isinstance(x, LA.LArr):
            x, y = x.at(G), y.at(G)
        for u, v in zip(np.asarray(x, dtype=object).flat, np.asarray(y, dtype=object).flat):
            goals.append(E.eq_cleared(R2(S.zz(v)), S.zz(u)))
    run.prove(name, FN, H, z3.And(*goals) if goals else z3.BoolVal(True), structural=True)


def _rp_fblock(h, Fin, cfg):
    from pv import native

    def replay(model):
        kw = dict(L=E.model_array(model, h.Lm).tolist(), F=E.model_array(model, Fin).tolist(), phase=cfg.get("phase", 0), fabric=cfg.get("fabric", 0),
                  regime=cfg.get("regime", 4), assemblage=list(cfg.get("assemblage", (cfg.get("phase", 0),))))
        res = native.call("contracts.updfacets", "nat_fblock", kw)
        return (not res["ok"]), dict(checker="contracts.updfacets:nat_fblock", inputs=kw, observed=res, what="F-block of the real right-hand side differs from (L @ F).flatten()")

    return replay


def nat_fblock(L, F, phase, fabric, regime, assemblage):
    """Capture the real eval_rhs closure (LSODA replaced by a recorder) and evaluate its F-block at (L, F)."""
    import pydrex
    from pydrex import core, minerals

    L, F = np.array(L, float), np.array(F, float)
    cap = {}

    class Rec:
        def __init__(self, fun, t0, y0, t_bound, **kw):
            cap.update(fun=fun, y0=y0, t0=t0)
            raise _Stop()

    class _Stop(Exception):
        pass

    m = pydrex.Mineral(phase=core.MineralPhase(phase), fabric=core.MineralFabric(fabric), regime=core.DeformationRegime(regime), n_grains=4, seed=1)
    params = core.DefaultParams().as_dict()
    params["phase_assemblage"] = tuple(core.MineralPhase(p) for p in assemblage)
    params["phase_fractions"] = tuple([1.0 / len(assemblage)] * len(assemblage))
    old = minerals.LSODA
    minerals.LSODA = Rec
    try:
        try:
            m.update_orientations(params, F, lambda t, x: L, (0.0, 1.0, lambda t: np.zeros(3)))
        except _Stop:
            pass
    finally:
        minerals.LSODA = old
    out = cap["fun"](0.3, cap["y0"].copy())
    got, want = np.asarray(out[:9]), (L @ F).ravel()
    return dict(ok=bool(np.allclose(got, want, rtol=1e-10, atol=1e-12 * max(1.0, np.abs(want).max()))), got=got.tolist(), want=want.tolist())
