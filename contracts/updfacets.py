"""Facets of the update cone (Mineral.update_orientations and its closures) used by C01 C05 C06 C07 C08 C09."""
import ast
import inspect
import itertools
import textwrap

import numpy as np
import z3

from contracts import updlib as UL
from pv import engine as E
from pv import larr as LA
from pv import sym as S
from pv.facets import prove_entries
from pv.sym import Sym, SymInt, sym, symarr
from pv.util import Z, alleq, real_module

FN = "pydrex.minerals.Mineral.update_orientations"
FN_RHS = "pydrex.minerals.Mineral.update_orientations.<eval_rhs>"
FN_STEP = "pydrex.minerals.Mineral.update_orientations.<perform_step>"
G = LA.G


def block(out, k):
    """k-th block (F | orientations | fractions) of a right-hand side / state vector, Packed or YVec."""
    if isinstance(out, LA.YVec):
        return (out.F9, out.O, out.f)[k]
    if isinstance(out, LA.Packed):
        return out.block(k)
    raise E.Unsupported(f"right-hand side of type {type(out).__name__}")


def guarded(f):
    """A facet group that cannot interpret what the (changed) code does is *undecided*, never a checker failure."""
    import functools

    @functools.wraps(f)
    def w(run, *a, **k):
        try:
            return f(run, *a, **k)
        except E.UNSUPPORTED_EXC as e:
            run.undecided(f"{f.__name__}", FN, f"unsupported construct: {e}")
        except (AttributeError, TypeError, IndexError, KeyError, ValueError) as e:
            import traceback

            run.undecided(f"{f.__name__}", FN, f"harness could not interpret the code's behaviour: {type(e).__name__}: {e} @ {traceback.format_exc().splitlines()[-3].strip()[:120]}")
        finally:
            E.Ctx.cur = None
            LA.Sigma.cur = None
            LA.LoopRule.cur = None

    return w


def consts_of(t, acc=None, seen=None):
    if acc is None:
        acc, seen = set(), set()
    if t.get_id() in seen:
        return acc
    seen.add(t.get_id())
    if z3.is_app(t):
        if t.num_args() == 0 and t.decl().kind() == z3.Z3_OP_UNINTERPRETED:
            acc.add(t.decl().name())
        elif t.decl().kind() == z3.Z3_OP_UNINTERPRETED:
            acc.add(t.decl().name() + "()")
        for c in t.children():
            consts_of(c, acc, seen)
    return acc


def consts_arr(a):
    acc = set()
    for v in np.asarray(a, dtype=object).flat:
        if isinstance(v, Sym):
            consts_of(v.z, acc, set())
    return acc


def explore(run, name, **kw):
    h = UL.Harness(**kw)
    ex = h.explore()
    run.paths += len(ex.paths)
    if not ex.complete or ex.unsupported:
        run.undecided(name, FN, "symbolic run of update_orientations incomplete: " + "; ".join(ex.unsupported[:2]))
        return h, None
    bad = [p for p in ex.paths if p.exc is not None]
    if bad:
        e = bad[0].exc
        run.undecided(name, FN, f"harness-level exception {type(e).__name__}: {str(e)[:200]}")
        return h, None
    for di, d in enumerate(getattr(ex, "dead", [])[:4]):
        # a path that became infeasible right after an assumed safety obligation: that obligation decides
        for k, o in enumerate(d.oblig[-2:]):
            run.prove(f"{name}/dead-path{di}/safety.{o.name}#{k}", FN, list(ex.ctx.hyps) + list(o.pc) + list(d.lazy), o.goal, structural=True, kind="safety",
                      detail=f"{o.meta.get('what', o.name)}: {E.brief(o.goal, 160)}")
    if not ex.paths:
        if not getattr(ex, "dead", []):
            run.checker_failures.append(f"{name}: no feasible path")
        return h, None
    return h, ex


def path_hyps(ex, p):
    return list(ex.ctx.hyps) + list(p.pc)


# ----------------------------------------------------------------------------- C06
@guarded
def c06_facets(run, configs=(dict(phase=0, fabric=0, regime=4), dict(phase=1, fabric=5, regime=6, assemblage=(1,)), dict(phase=0, fabric=2, regime=4, assemblage=(1, 0), own_index=1))):
    fblocks = []
    for cfg in configs:
        tag = f"C06[{cfg.get('phase')},{cfg.get('fabric')},{cfg.get('regime')}]"
        kw = dict(cfg)
        kw.pop("own_index", None)
        h, ex = explore(run, tag, **kw)
        if ex is None:
            continue
        for pi, p in enumerate(ex.paths):
            tr = p.value
            H = path_hyps(ex, p)
            t = f"{tag}/path{pi}"
            if tr.exc is not None:
                run.prove(f"{t}/no-exception", FN, H, z3.BoolVal(False), structural=True, detail=f"update raised {type(tr.exc).__name__}: {tr.exc}")
                continue
            y0 = tr.lsoda["y0"]
            F9 = y0.block(0) if isinstance(y0, LA.Packed) else y0[:9]
            prove_entries(run, f"{t}/y_start[:9]==F0.flatten()", FN, H, F9, h.F0.flatten())
            for k, (tk, yin, out, exc) in enumerate(tr.rhs):
                if exc is not None or out is None:
                    run.prove(f"{t}/rhs{k}/returns", FN_RHS, H, z3.BoolVal(False), structural=True, detail=f"right-hand side raised/returned None: {exc}")
                    continue
                Fin = yin.F9.reshape(3, 3) if isinstance(yin, LA.YVec) else yin[:9].reshape(3, 3)
                blk = block(out, 0)
                want = S._matmul(h.Lm, Fin).flatten()
                prove_entries(run, f"{t}/rhs{k}/F-block==(L@F).flatten()", FN_RHS, H, blk, want, replay=_rp_fblock(h, Fin, cfg))
                names = consts_arr(blk)
                allowed = consts_arr(h.Lm) | consts_arr(Fin)
                run.exact(f"{t}/rhs{k}/F-block depends only on L and F", FN_RHS, names <= allowed, f"free symbols {sorted(names - allowed)[:5]} beyond L, F")
                import re as _re
                fblocks.append(tuple(_re.sub(r"yF\d+", "yF", str(S.zz(v))) for v in blk))
            # velocity gradient evaluated at (t, position(t)) of the same t
            ok = True
            for (tt, xx) in tr.vg_calls:
                if not isinstance(xx, UL.Pos) or not z3.eq(z3.simplify(S.zz(xx.t)), z3.simplify(S.zz(tt))):
                    ok = False
            rts = [r[0] for r in tr.rhs]
            ok_t = all(any(z3.eq(S.zz(tt), S.zz(rt)) for (tt, _) in tr.vg_calls) for rt in rts)
            run.exact(f"{t}/L evaluated at (t, x(t)) for the solver's t", FN_RHS, ok and ok_t, "get_velocity_gradient(t, get_position(t)) with the same t the solver passed")
            # perform_step never writes y[:9]
            okw = all((isinstance(y, LA.YVec) and set(y.writes) <= {"9:"}) or not isinstance(y, LA.YVec) for y in tr.y_after_steps)
            yl = tr.y_after_steps[-1]
            Fl = yl.F9 if isinstance(yl, LA.YVec) else yl[:9]
            havoc = symarr(f"yF{tr.steps}", (9,)) if isinstance(yl, LA.YVec) else None
            if havoc is not None:
                okw = okw and all(z3.eq(S.zz(a), S.zz(b)) for a, b in zip(Fl.flat, havoc.flat))
            run.exact(f"{t}/perform_step leaves y[:9] as the solver set it", FN_STEP, okw, "only y[9:] is assigned after a step")
            prove_entries(run, f"{t}/returns y_final[:9].reshape(3,3)", FN, H, tr.ret, np.asarray(Fl, dtype=object).reshape(3, 3))
    if fblocks:
        run.exact("C06/F-block identical for every phase, fabric, regime and assemblage", FN_RHS, len(set(fblocks)) == 1, f"{len(set(fblocks))} distinct F-block expressions over {len(configs)} configurations")


@guarded
def update_all_facets(run):
    """update_all hands the same starting F to every mineral and returns the last result."""
    M = real_module("pydrex.minerals")
    fn = "pydrex.minerals.update_all"
    g = E.rebind_module(M)
    f = g.get("update_all")
    if f is None:
        run.undecided("update_all", fn, "not found")
        return
    calls = []

    class Stub:
        def __init__(s, k):
            s.k = k

        def update_orientations(s, params=None, deformation_gradient=None, get_velocity_gradient=None, pathline=None, get_regime=None, **kw):
            calls.append((s.k, params, deformation_gradient, get_velocity_gradient, pathline, get_regime, kw))
            return ("F", s.k)

    for nm in (1, 2, 3):
        calls.clear()
        F0, P, gL, pl, gr = object(), {"p": 1}, object(), (0, 1, object()), object()
        try:
            ret = f([Stub(k) for k in range(nm)], P, F0, gL, pl, gr, atol=1)
        except Exception as e:
            run.exact(f"update_all[{nm} minerals]/runs", fn, False, f"raised {type(e).__name__}: {e}", info=None)
            continue
        ok = len(calls) == nm and [c[0] for c in calls] == list(range(nm)) and all(c[2] is F0 and c[1] is P and c[3] is gL and c[4] is pl and c[5] is gr and c[6] == {"atol": 1} for c in calls)
        run.exact(f"update_all[{nm} minerals]/every mineral gets the same starting F, params, callables", fn, ok, "argument identity at each call")
        run.exact(f"update_all[{nm} minerals]/returns the last mineral's result", fn, ret == ("F", nm - 1), f"returned {ret}")


# ----------------------------------------------------------------------------- C08
@guarded
def c08_facets(run):
    for assemblage in ((0,), (1,), (0, 1), (1, 0)):
        for phase in assemblage:
            fabric = 0 if phase == 0 else 5
            tag = f"C08[assemblage={assemblage},phase={phase}]"
            h, ex = explore(run, tag, phase=phase, fabric=fabric, assemblage=assemblage, steps_choices=(1,))
            if ex is None:
                continue
            own = assemblage.index(phase)
            for pi, p in enumerate(ex.paths):
                tr = p.value
                if tr.exc is not None:
                    run.prove(f"{tag}/path{pi}/no-exception", FN, path_hyps(ex, p), z3.BoolVal(False), structural=True, detail=f"raised {type(tr.exc).__name__}: {tr.exc}")
                    continue
                ok = bool(tr.deriv) and all(isinstance(d["volume_fraction"], Sym) and z3.eq(d["volume_fraction"].z, h.phis[own].z) for d in tr.deriv)
                run.exact(f"{tag}/path{pi}/volume fraction handed to the solver is the mineral's own", FN_RHS, ok, "phase_fractions[phase_assemblage.index(self.phase)]")
                okp = all(int(d["phase"]) == phase and int(d["fabric"]) == fabric and isinstance(d["gbm_mobility"], Sym) and z3.eq(d["gbm_mobility"].z, h.params["gbm_mobility"].z) for d in tr.deriv)
                run.exact(f"{tag}/path{pi}/solver gets the mineral's own phase, fabric and the unscaled mobility", FN_RHS, okp, "derivatives(phase=self.phase, fabric=self.fabric, gbm_mobility=params[...])")


@guarded
def hidden_state_scan(run, modules=("pydrex.minerals", "pydrex.core", "pydrex.utils")):
    """No module-level mutable state is written by the update cone: AST scan for global/nonlocal declarations and
    stores to module attributes / module-level containers inside functions."""
    for modname in modules:
        mod = real_module(modname)
        src = inspect.getsource(mod)
        tree = ast.parse(src)
        module_names = {t.id for n in tree.body if isinstance(n, (ast.Assign, ast.AnnAssign)) for t in (n.targets if isinstance(n, ast.Assign) else [n.target]) if isinstance(t, ast.Name)}
        bad = []
        for fn in ast.walk(tree):
            if not isinstance(fn, (ast.FunctionDef, ast.AsyncFunctionDef)):
                continue
            local = {a.arg for a in fn.args.args + fn.args.kwonlyargs} | ({fn.args.vararg.arg} if fn.args.vararg else set()) | ({fn.args.kwarg.arg} if fn.args.kwarg else set())
            for n in ast.walk(fn):
                if isinstance(n, ast.Name) and isinstance(n.ctx, ast.Store):
                    local.add(n.id)
            for n in ast.walk(fn):
                if isinstance(n, (ast.Global, ast.Nonlocal)):
                    bad.append((fn.name, n.lineno, "global/nonlocal " + ",".join(n.names)))
                if isinstance(n, (ast.Subscript, ast.Attribute)) and isinstance(n.ctx, (ast.Store, ast.Del)):
                    base = n.value
                    while isinstance(base, (ast.Subscript, ast.Attribute)):
                        base = base.value
                    if isinstance(base, ast.Name) and base.id in module_names and base.id not in local:
                        bad.append((fn.name, n.lineno, f"store into module-level {base.id}"))
                if isinstance(n, ast.Call) and isinstance(n.func, ast.Attribute) and n.func.attr in ("append", "update", "setdefault", "add", "extend", "pop", "clear", "insert", "remove"):
                    base = n.func.value
                    while isinstance(base, (ast.Subscript, ast.Attribute)):
                        base = base.value
                    if isinstance(base, ast.Name) and base.id in module_names and base.id not in local:
                        bad.append((fn.name, n.lineno, f"mutating call on module-level {base.id}"))
                if isinstance(n, ast.FunctionDef) and any(isinstance(d, (ast.List, ast.Dict, ast.Set)) for d in n.args.defaults + n.args.kw_defaults if d is not None):
                    bad.append((n.name, n.lineno, "mutable default argument"))
        run.exact(f"no hidden module state written in {modname}", modname, not bad, f"{bad[:4]}" if bad else "no global/nonlocal, no store or mutating call on module-level names, no mutable defaults",
                  info=None)


# ----------------------------------------------------------------------------- C05
@guarded
def c05_facets(run):
    kk = sym("kscale")
    for regime in (4, 6):
        tag = f"C05[regime={regime}]"
        h1, ex1 = explore(run, tag + "/run1", regime=regime, assemblage=(0, 1))
        h2, ex2 = explore(run, tag + "/run2", regime=regime, assemblage=(0, 1), L_scale=kk, t_scale=kk)
        if ex1 is None or ex2 is None:
            continue
        if len(ex1.paths) != len(ex2.paths):
            run.undecided(tag, FN, f"scaled and unscaled runs have different numbers of paths ({len(ex1.paths)} vs {len(ex2.paths)})")
            continue
        for pi, (p1, p2) in enumerate(zip(ex1.paths, ex2.paths)):
            t1_, t2_ = p1.value, p2.value
            t = f"{tag}/path{pi}"
            if t1_.exc is not None or t2_.exc is not None:
                run.prove(f"{t}/no-exception", FN, path_hyps(ex1, p1), z3.BoolVal(False), structural=True, detail=f"raised {t1_.exc} / {t2_.exc}")
                continue
            # relational contract of the eigenvalue stub (A-EIG): eig(k D) = k eig(D) for k > 0
            rel = [kk.z > 0]
            if len(t1_.eig) != len(t2_.eig) or t1_.steps != t2_.steps:
                run.undecided(t, FN, "different call structure in the scaled run")
                continue
            for (D1, e1), (D2, e2) in zip(t1_.eig, t2_.eig):
                for a, b in zip(e1.flat, e2.flat):
                    rel.append(S.zz(b) == kk.z * S.zz(a))
            # eigen symbols share names between the runs: make the second run's distinct
            ren = []
            for (D2, e2) in t2_.eig:
                for b in e2.flat:
                    ren.append((S.zz(b), z3.Real(str(S.zz(b)) + "_k")))
            def R2(term):
                return z3.substitute(term, *ren) if ren else term
            rel = [kk.z > 0] + [z3.Real(str(S.zz(b)) + "_k") == kk.z * S.zz(a) for (D1, e1), (D2, e2) in zip(t1_.eig, t2_.eig) for a, b in zip(e1.flat, e2.flat)]
            H = list(ex1.ctx.hyps) + list(p1.pc) + list(p1.lazy) + [R2(c) for c in p2.pc] + [R2(c) for c in p2.lazy] + rel
            # set-up covariance
            kw1, kw2 = t1_.lsoda["kw"], t2_.lsoda["kw"]
            run.exact(f"{t}/setup: rtol constant, same bands", FN, kw1.get("rtol") == kw2.get("rtol") and not isinstance(kw1.get("rtol"), Sym) and kw1.get("lband") is kw2.get("lband") and set(kw1) == set(kw2),
                      f"LSODA keywords {sorted(kw1)}; rtol={kw1.get('rtol')}")
            extra = set(kw1) - {"atol", "rtol", "first_step", "lband", "uband"}
            if extra:
                run.undecided(f"{t}/setup: additional solver keywords {sorted(extra)}", FN, "covariance of solver keywords beyond atol/rtol/first_step is not covered by a contract: bounded stand-in decides")
            _same_packed(run, f"{t}/setup: y_start independent of the rate", H, t1_.lsoda["y0"], t2_.lsoda["y0"], R2)
            _same_packed(run, f"{t}/setup: atol independent of the rate", H, kw1["atol"], kw2["atol"], R2)
            names = set()
            for part in (kw1["atol"].parts if isinstance(kw1["atol"], LA.Packed) else [kw1["atol"]]):
                names |= _names_any(part)
            run.exact(f"{t}/setup: atol mentions neither time nor velocity gradient", FN, not any(nm.startswith(("t0", "t1", "L_", "kscale")) for nm in names), f"{sorted(names)[:6]}")
            run.prove(f"{t}/setup: first_step scales with 1/k", FN, H, E.eq_cleared(R2(S.zz(kw2["first_step"])) * kk.z, S.zz(kw1["first_step"])), structural=True)
            run.prove(f"{t}/setup: first_step == |t1-t0|/10", FN, H, S.zz(kw1["first_step"]) == S.zz(abs(h1.t1 - h1.t0) * 1e-1), structural=True)
            run.prove(f"{t}/setup: time span scales with 1/k", FN, H, z3.And(E.eq_cleared(S.zz(t2_.lsoda["t0"]) * kk.z, S.zz(t1_.lsoda["t0"])), E.eq_cleared(S.zz(t2_.lsoda["t_bound"]) * kk.z, S.zz(t1_.lsoda["t_bound"]))), structural=True)
            # right-hand side homogeneity, block by block, with the solver stub's arguments compared
            for k, ((tk1, y1, o1, x1), (tk2, y2, o2, x2)) in enumerate(zip(t1_.rhs, t2_.rhs)):
                if o1 is None or o2 is None:
                    run.prove(f"{t}/rhs{k}/returns", FN_RHS, H, z3.BoolVal(False), structural=True, detail="right-hand side failed")
                    continue
                d1, d2 = t1_.deriv[k], t2_.deriv[k]
                b1 = [block(o1, i) for i in range(3)]
                b2 = [block(o2, i) for i in range(3)]
                goals = [E.eq_cleared(R2(S.zz(b)), kk.z * S.zz(a)) for a, b in zip(np.asarray(b1[0], dtype=object).flat, np.asarray(b2[0], dtype=object).flat)]
                run.prove(f"{t}/rhs{k}/dF block homogeneous of degree 1", FN_RHS, H, z3.And(*goals), structural=True)
                same = all(_same_val(d1[key], d2[key]) for key in d1 if key not in ("strain_rate", "velocity_gradient", "deformation_gradient_spin", "orientations", "fractions"))
                run.exact(f"{t}/rhs{k}/other solver arguments identical", FN_RHS, same, "regime, phase, fabric, n_grains, exponents, efficiency, mobility, volume fraction")
                sameOF = _same_larr(d1["orientations"], d2["orientations"]) and _same_larr(d1["fractions"], d2["fractions"])
                run.exact(f"{t}/rhs{k}/orientations and fractions handed to the solver identical", FN_RHS, sameOF, "extract_vars(y) of the same y")
                # the normalising strain rate of each run (the divisor of the solver's strain_rate argument)
                dn1 = E.denominators(S.zz(np.asarray(d1["strain_rate"], dtype=object).flat[1]))
                dn2 = E.denominators(R2(S.zz(np.asarray(d2["strain_rate"], dtype=object).flat[1])))
                dn1 = [d for d in dn1 if not z3.is_rational_value(d)]
                dn2 = [d for d in dn2 if not z3.is_rational_value(d)]
                if not dn1 and not dn2:
                    # no normalisation on this path (vanishing strain rate): both runs hand a zero strain rate to the solver,
                    # whose null contract (C07: zero strain rate => zero rates) makes the texture blocks vanish in both runs
                    z1 = z3.And(*[S.zz(v) == 0 for v in np.asarray(d1["strain_rate"], dtype=object).flat])
                    z2 = z3.And(*[R2(S.zz(v)) == 0 for v in np.asarray(d2["strain_rate"], dtype=object).flat])
                    run.prove(f"{t}/rhs{k}/vanishing strain rate: solver gets strain_rate == 0 in both runs", FN_RHS, H, z3.And(z1, z2), structural=True)
                    continue
                if len(dn1) != 1 or len(dn2) != 1:
                    run.undecided(f"{t}/rhs{k}/normalisation", FN_RHS, "could not identify the normalising strain rate")
                    continue
                s1, s2 = z3.Real("srm!1"), z3.Real("srm!2")
                run.prove(f"{t}/rhs{k}/lemma: max principal strain rate scales with k", FN_RHS, rel, dn2[0] == kk.z * dn1[0], structural=True)
                Ha = [kk.z > 0, s2 == kk.z * s1, s1 != 0, s2 != 0]

                def ab(term):
                    return z3.substitute(term, (dn1[0], s1), (dn2[0], s2))

                for key in ("strain_rate", "velocity_gradient"):
                    goals = [E.eq_cleared(ab(R2(S.zz(b))), ab(S.zz(a))) for a, b in zip(np.asarray(d1[key], dtype=object).flat, np.asarray(d2[key], dtype=object).flat)]
                    run.prove(f"{t}/rhs{k}/solver argument {key} is rate-independent (normalised)", FN_RHS, Ha, z3.And(*goals), structural=True)
                for bi, nm in ((1, "orientation"), (2, "fraction")):
                    a, b = b1[bi].at(G), b2[bi].at(G)
                    goals = [E.eq_cleared(ab(R2(S.zz(y_))), kk.z * ab(S.zz(x_))) for x_, y_ in zip(np.asarray(a, dtype=object).flat, np.asarray(b, dtype=object).flat)]
                    run.prove(f"{t}/rhs{k}/{nm} block homogeneous of degree 1", FN_RHS, Ha, z3.And(*goals), structural=True)
    # the dislocation regimes of the solver ignore the spin argument (which is not rate-normalised)
    from contracts import corelib as CL

    core = CL.load()
    for regime in (4, 6):
        c = E.Ctx([])
        E.Ctx.cur = c
        try:
            c.reset_path([])
            dr = CL.DerivRun(core, core.DeformationRegime(regime))
            dO, df = dr.run()
            names = _names_any(dO.at(G)) | _names_any(df.at(G))
            run.exact(f"C05/derivatives[regime={regime}] does not read deformation_gradient_spin", "pydrex.core.derivatives", not any(nm.startswith("W_") for nm in names), "no W symbol in the outputs")
        except E.UNSUPPORTED_EXC as e:
            run.undecided(f"C05/derivatives[regime={regime}] spin-independence", "pydrex.core.derivatives", str(e))
        finally:
            E.Ctx.cur = None
            LA.Sigma.cur = None
            LA.LoopRule.cur = None


def _names_any(x):
    if isinstance(x, LA.Flat):
        x = x.arr
    if isinstance(x, LA.LArr):
        x = x.at(G)
    if isinstance(x, Sym):
        return consts_of(x.z)
    if isinstance(x, np.ndarray):
        return consts_arr(x)
    return set()


def _same_val(a, b):
    if a is b:
        return True
    if isinstance(a, Sym) or isinstance(b, Sym):
        return isinstance(a, Sym) and isinstance(b, Sym) and z3.eq(a.z, b.z)
    if isinstance(a, SymInt) and isinstance(b, SymInt):
        return z3.eq(a.z, b.z)
    try:
        return bool(a == b)
    except Exception:
        return False


def _same_larr(a, b):
    if isinstance(a, LA.LArr) and isinstance(b, LA.LArr):
        return all(z3.eq(z3.simplify(S.zz(x)), z3.simplify(S.zz(y))) for x, y in zip(np.asarray(a.at(G), dtype=object).flat, np.asarray(b.at(G), dtype=object).flat))
    return False


def _same_packed(run, name, H, a, b, R2):
    pa = a.parts if isinstance(a, LA.Packed) else [a]
    pb = b.parts if isinstance(b, LA.Packed) else [b]
    goals = []
    for x, y in zip(pa, pb):
        if isinstance(x, LA.Flat):
            x, y = x.arr, y.arr
        if isinstance(x, LA.LArr):
            x, y = x.at(G), y.at(G)
        for u, v in zip(np.asarray(x, dtype=object).flat, np.asarray(y, dtype=object).flat):
            goals.append(E.eq_cleared(R2(S.zz(v)), S.zz(u)))
    run.prove(name, FN, H, z3.And(*goals) if goals else z3.BoolVal(True), structural=True)


def _rp_fblock(h, Fin, cfg):
    from pv import native

    def replay(model):
        kw = dict(L=E.model_array(model, h.Lm).tolist(), F=E.model_array(model, Fin).tolist(), phase=cfg.get("phase", 0), fabric=cfg.get("fabric", 0),
                  regime=cfg.get("regime", 4), assemblage=list(cfg.get("assemblage", (cfg.get("phase", 0),))))
        res = native.call("contracts.updfacets", "nat_fblock", kw)
        return (not res["ok"]), dict(checker="contracts.updfacets:nat_fblock", inputs=kw, observed=res, what="F-block of the real right-hand side differs from (L @ F).flatten()")

    return replay


def nat_fblock(L, F, phase, fabric, regime, assemblage):
    """Capture the real eval_rhs closure (LSODA replaced by a recorder) and evaluate its F-block at (L, F)."""
    import pydrex
    from pydrex import core, minerals

    L, F = np.array(L, float), np.array(F, float)
    cap = {}

    class Rec:
        def __init__(self, fun, t0, y0, t_bound, **kw):
            cap.update(fun=fun, y0=y0, t0=t0)
            raise _Stop()

    class _Stop(Exception):
        pass

    m = pydrex.Mineral(phase=core.MineralPhase(phase), fabric=core.MineralFabric(fabric), regime=core.DeformationRegime(regime), n_grains=4, seed=1)
    params = core.DefaultParams().as_dict()
    params["phase_assemblage"] = tuple(core.MineralPhase(p) for p in assemblage)
    params["phase_fractions"] = tuple([1.0 / len(assemblage)] * len(assemblage))
    old = minerals.LSODA
    minerals.LSODA = Rec
    try:
        try:
            m.update_orientations(params, F, lambda t, x: L, (0.0, 1.0, lambda t: np.zeros(3)))
        except _Stop:
            pass
    finally:
        minerals.LSODA = old
    out = cap["fun"](0.3, cap["y0"].copy())
    got, want = np.asarray(out[:9]), (L @ F).ravel()
    return dict(ok=bool(np.allclose(got, want, rtol=1e-10, atol=1e-12 * max(1.0, np.abs(want).max()))), got=got.tolist(), want=want.tolist())


# ----------------------------------------------------------------------------- C09 glue / C01 frame / C07 null forcing and failure frame
@guarded
def c09_glue(run):
    for regime in (4, 6):  # both dislocation regimes that evolve the texture (sliding must not depend on the regime)
        _c09_glue_regime(run, regime)


def _c09_glue_regime(run, regime):
    from contracts import gbslib as GL

    rt = "" if regime == 4 else f"[regime={regime}]"
    h, ex = explore(run, f"C09/glue{rt}", assemblage=(0,), regime=regime)
    if ex is None:
        return
    for pi, p in enumerate(ex.paths):
        tr = p.value
        t = f"C09/glue{rt}/path{pi}"
        if tr.exc is not None:
            run.prove(f"{t}/no-exception", FN, path_hyps(ex, p), z3.BoolVal(False), structural=True, detail=f"raised {type(tr.exc).__name__}: {tr.exc}")
            continue
        ok_n = len(tr.gbs) == tr.steps
        run.exact(f"{t}/apply_gbs is applied exactly once per solver step", FN_STEP, ok_n, f"{len(tr.gbs)} calls for {tr.steps} steps")
        for k, (args, res, passed) in enumerate(tr.gbs):
            o_in, f_in, chi, prev, ng = args
            okp = isinstance(prev, LA.LArr) and _same_larr(prev, tr.snap0[0]) and tr.snap0[0].writes == tr.snap0[2]
            run.exact(f"{t}/step{k}/reference orientations are the snapshot at the start of the update", FN_STEP, okp, "orientations_prev is self.orientations[-1], unchanged during the update")
            okc = isinstance(chi, Sym) and z3.eq(chi.z, h.params["gbs_threshold"].z) and isinstance(ng, SymInt) and z3.eq(ng.z, h.n.z)
            run.exact(f"{t}/step{k}/threshold and grain count passed on unchanged", FN_STEP, okc, "params['gbs_threshold'], self.n_grains")
            yk = tr.y_after_steps[k] if k < len(tr.y_after_steps) else None
            src = [e for e in tr.extract if e[0] is yk and isinstance(o_in, LA.LArr) and _same_larr(e[3][1], o_in) and _same_larr(e[3][2], f_in)]
            oks = len(src) >= 1
            run.exact(f"{t}/step{k}/sliding acts on extract_vars(solver.y) of this step", FN_STEP, oks, "orientations, fractions come from the state the solver just produced")
            okw = isinstance(yk, LA.YVec) and isinstance(yk.O, LA.LArr) and isinstance(yk.f, LA.LArr) and _same_larr(yk.O, res[0]) and _same_larr(yk.f, res[1]) and set(yk.writes) == {"9:"}
            run.exact(f"{t}/step{k}/result is written back into solver.y[9:]", FN_STEP, okw, "solver.y[9:] = hstack((orientations.flatten(), fractions))")
        # stored snapshot == last apply_gbs output (by the contracts of extract_vars and apply_gbs)
        m = tr.mineral
        if len(m.orientations) != 2 or len(m.fractions) != 2 or not tr.gbs:
            run.exact(f"{t}/one snapshot stored", FN, False, f"{len(m.orientations)} / {len(m.fractions)} snapshots")
            continue
        So, Sf = m.orientations[-1], m.fractions[-1]
        go, gf = tr.gbs[-1][1]
        sums = list(tr.sums)
        if len(sums) < 3:
            run.undecided(f"{t}/stored==gbs", FN, f"unexpected sum symbols {sums}")
            continue
        Sa, Sb, Sc = (z3.Real(nm) for nm in sums[-3:])
        chi = h.params["gbs_threshold"].z
        H = path_hyps(ex, p) + [G >= 0, G < h.n.z]
        # callee contract facts, instantiated at this call chain (each proved for all n in gbslib)
        yfG = S.zz(GL._at(tr.y_after_steps[-1].f if False else LA.larr(f"yf{tr.steps}", h.n, ()), G))
        facts = [Sa > 0,                       # A-LSODA: positive fraction mass after a step
                 Sb >= 1, Sb <= 1 + chi,        # apply_gbs: S >= 1, S <= 1 + chi (MONO from sum(extract) == 1)
                 Sc == 1]                       # extract_vars CONG + apply_gbs sum1: max(gf,0) == gf pointwise and SUM gf == 1
        gfG = S.zz(GL._at(gf, G))
        run.prove(f"{t}/CONG side condition: apply_gbs output fraction >= 0", FN, H + facts, E.clear_formula(gfG >= 0), structural=True)
        # well-formed start snapshot: entries in [-1, 1]
        O0G = GL._at(tr.snap0[0], G)
        wf = [z3.And(S.zz(v) >= -1, S.zz(v) <= 1) for v in np.asarray(O0G, dtype=object).flat]
        goals = [S.zz(a) == S.zz(b) for a, b in zip(np.asarray(GL._at(So, G), dtype=object).flat, np.asarray(GL._at(go, G), dtype=object).flat)]
        run.prove(f"{t}/stored orientations == last apply_gbs output", FN, H + facts + wf, z3.And(*goals), structural=True)
        run.prove(f"{t}/stored fractions == last apply_gbs output", FN, H + facts, E.clear_formula(S.zz(GL._at(Sf, G)) == gfG), structural=True)


@guarded
def c01_frame(run):
    """Append-only history: exactly one append per list, at the end, of fresh arrays; earlier snapshots untouched."""
    for kw, label in ((dict(assemblage=(0,)), "normal"), (dict(assemblage=(0,), lsoda_fail=True), "solver-failure"),
                      (dict(assemblage=(0,), derivatives_raises=ValueError("stub: unsupported regime")), "solver-raises")):
        h = UL.Harness(**kw)
        ex = h.explore()
        run.paths += len(ex.paths)
        if not ex.complete or ex.unsupported or any(p.exc is not None for p in ex.paths) or not ex.paths:
            run.undecided(f"C01/frame[{label}]", FN, "symbolic run incomplete: " + "; ".join(ex.unsupported[:2]) + "".join(str(p.exc)[:80] for p in ex.paths if p.exc is not None))
            continue
        for pi, p in enumerate(ex.paths):
            tr = p.value
            t = f"C01/frame[{label}]/path{pi}"
            m = tr.mineral
            log = [(a, b) for a, b, *_ in tr.mut.log]
            untouched = m.orientations[0] is tr.snap0[0] and m.fractions[0] is tr.snap0[1] and tr.snap0[0].writes == tr.snap0[2] and tr.snap0[1].writes == tr.snap0[3]
            run.exact(f"{t}/earlier snapshots are never written", FN, untouched, "the start snapshot is the same object with no element writes")
            if label == "normal":
                ok = tr.exc is None and log == [("orientations", "append"), ("fractions", "append")] and len(m.orientations) == 2 and len(m.fractions) == 2
                run.exact(f"{t}/exactly one snapshot appended to each list, nothing else mutated", FN, ok, f"mutation log {log}, exception {tr.exc}")
                if ok:
                    yl = tr.y_after_steps[-1]
                    fresh = all(x is not y for x in (m.orientations[-1], m.fractions[-1]) for y in (tr.snap0[0], tr.snap0[1], yl.O, yl.f))
                    run.exact(f"{t}/appended arrays are fresh (no alias of an earlier snapshot or of the solver state)", FN, fresh, "results of extract_vars's clip() calls")
                    after_steps = all(e[1] == "append" for e in tr.mut.log)
                    run.exact(f"{t}/the append happens after the last solver step", FN, after_steps and tr.steps >= 1, f"{tr.steps} steps before the append")
            else:
                exc_ok = isinstance(tr.exc, (h.err.IterationError, ValueError))
                run.exact(f"{t}/failed update raises and leaves the stored history untouched", FN, exc_ok and log == [] and len(m.orientations) == 1 and len(m.fractions) == 1,
                          f"exception {type(tr.exc).__name__ if tr.exc else None}, mutation log {log}")
            before = tr.attr_before
            attrs = {k for k in m.__dict__ if k not in before or m.__dict__[k] is not before[k]}
            run.exact(f"{t}/no attribute of the mineral is rebound (history lists are mutated in place only)", FN, attrs <= {"regime"}, f"attributes rebound: {sorted(attrs)}")


@guarded
def c07_null(run):
    """Null forcing: zero velocity gradient, rigid rotation, viscosity-bound regimes -> zero texture derivatives, dF = L.F."""
    cases = [("zero-L/regime4", dict(L_kind="zero", regime=4)), ("zero-L/regime6", dict(L_kind="zero", regime=6)),
             ("rigid-rotation/regime4", dict(L_kind="skew", regime=4)), ("min_viscosity", dict(L_kind="sym", regime=0)), ("max_viscosity", dict(L_kind="sym", regime=7))]
    for label, kw in cases:
        h, ex = explore(run, f"C07/{label}", assemblage=(0,), real_derivatives=True, steps_choices=(1,), **kw)
        if ex is None:
            continue
        for pi, p in enumerate(ex.paths):
            tr = p.value
            t = f"C07/{label}/path{pi}"
            H = path_hyps(ex, p) + list(p.lazy) + [G >= 0, G < h.n.z]
            if tr.exc is not None:
                run.prove(f"{t}/does not raise", FN, H, z3.BoolVal(False), structural=True, detail=f"raised {type(tr.exc).__name__}: {tr.exc}")
                continue
            for k, (tk, yin, out, exc) in enumerate(tr.rhs):
                if out is None:
                    run.prove(f"{t}/rhs{k}/returns", FN_RHS, H, z3.BoolVal(False), structural=True, detail=f"right-hand side failed: {exc}")
                    continue
                for bi, nm in ((1, "orientation"), (2, "fraction")):
                    blk = block(out, bi)
                    with S.quiet():
                        vals = blk.fn(G)
                    goals = [E.clear_formula(S.zz(v) == 0) for v in np.asarray(vals, dtype=object).flat]
                    run.prove(f"{t}/rhs{k}/{nm} derivatives are identically zero", FN_RHS, H, z3.And(*goals), structural=True)
                Fin = yin.F9.reshape(3, 3)
                prove_entries(run, f"{t}/rhs{k}/dF == L @ F still", FN_RHS, H, block(out, 0), S._matmul(h.Lm, Fin).flatten())
            for k, o in enumerate(p.oblig):
                # divisions by Sigma symbols are the callees' business (extract_vars: A-LSODA mass > 0; apply_gbs: S >= 1), proved in gbslib
                if o.name == "div_nonzero" and not any(nm.startswith("SUM") for nm in consts_of(o.goal)):
                    run.prove(f"{t}/safety.{o.name}#{k}", FN_RHS, path_hyps(ex, p)[: len(ex.ctx.hyps)] + list(o.pc) + list(p.lazy) + [G >= 0, G < h.n.z], o.goal, structural=True, kind="safety")


@guarded
def callee_frames(run):
    """Frame conditions that the update-cone harness assumes of the callees it replaces by contract stubs, proved on the
    real callees: polar_decompose and core.derivatives leave their array arguments untouched (eval_rhs hands
    polar_decompose the very array it later returns as dF/dt, and the solver the arrays it goes on using)."""
    from contracts import corelib as CL

    T = real_module("pydrex.tensors")
    fn = "pydrex.tensors.polar_decompose"
    for left in (True, False):
        M0 = symarr("pdM", (3, 3))

        def body(left=left):
            M = S.SymArray(np.array(M0, dtype=object).copy())

            class LinalgStub:
                @staticmethod
                def svd(m):
                    return symarr("pdU", (3, 3)), symarr("pdS", (3,)), symarr("pdV", (3, 3))

                @staticmethod
                def inv(m):
                    return symarr("pdInv", (3, 3))

            g = E.rebind_module(T, np_shim=S.NPShim(extra={"linalg": LinalgStub}))
            g["polar_decompose"](M, left)
            return M

        ex = E.explore(body, hyps=[], max_paths=40)
        run.paths += len(ex.paths)
        if not ex.paths:
            run.undecided(f"polar_decompose(left={left})/frame", fn, "no path: " + "; ".join(ex.unsupported[:2]))
            continue
        if not ex.complete or ex.unsupported:
            run.undecided(f"polar_decompose(left={left})/frame: remaining paths", fn, "exploration incomplete: " + "; ".join(ex.unsupported[:2]))
        for pi, p in enumerate(ex.paths[:12]):
            if p.exc is not None:
                run.undecided(f"polar_decompose(left={left})/frame/path{pi}", fn, f"{type(p.exc).__name__}: {p.exc}")
                continue
            after = np.asarray(p.value, dtype=object)
            goal = z3.And(*[S.zz(after[i, j]) == S.zz(M0[i, j]) for i in range(3) for j in range(3)])

            def replay(model, left=left):
                Mv = E.model_array(model, M0)
                from pv import native

                r = native.call("contracts.updfacets", "nat_polar_frame", dict(M=np.asarray(Mv, dtype=float).tolist(), left=left))
                return (not r["ok"]), dict(checker="contracts.updfacets:nat_polar_frame", inputs=dict(M=np.asarray(Mv, dtype=float).tolist(), left=left), observed=r["observed"])

            run.prove(f"polar_decompose(left={left})/path{pi}: the argument array is not modified", fn, list(ex.ctx.hyps) + list(p.pc), goal, replay=replay, kind="frame")
    # derivatives: lifted orientations / fractions are never written; the 3x3 arguments keep their entries
    core = CL.load()
    for regime in (0, 4, 6, 7):
        c = E.Ctx([])
        E.Ctx.cur = c
        c.reset_path([])
        dr = CL.DerivRun(core, regime)
        try:
            dr.run()
            same = all(z3.eq(S.zz(a), S.zz(b)) for A_, B_ in zip((dr.L, dr.D, dr.W), dr.snap) for a, b in zip(np.asarray(A_, dtype=object).flat, B_.flat))
            run.exact(f"derivatives[regime={regime}]/frame: orientations, fractions and the 3x3 arguments are not written", "pydrex.core.derivatives",
                      dr.O.writes == 0 and dr.f.writes == 0 and same,
                      f"{dr.O.writes} writes to orientations, {dr.f.writes} to fractions; strain rate / velocity gradient / spin entries identical: {same}")
        except ValueError as e:
            run.undecided(f"derivatives[regime={regime}]/frame", "pydrex.core.derivatives", f"raised {e}")
        finally:
            E.Ctx.cur = None
            LA.Sigma.cur = None
            LA.LoopRule.cur = None


def nat_polar_frame(M, left):
    from pydrex import tensors as T

    M = np.array(M, dtype=float)
    out = []
    for scale in (1.0, 1e-17, 1e-300):  # the model's matrix, and the same matrix at tiny magnitudes
        A = M * scale
        B = A.copy()
        try:
            T.polar_decompose(A, left)
        except Exception as e:  # singular input of the right decomposition: not the frame's business
            continue
        if not np.array_equal(A, B):
            out.append(f"scale {scale:g}: argument changed by up to {np.abs(A - B).max():.3g}")
    return dict(ok=not out, observed="; ".join(out) or "argument bit-identical after the call")


@guarded
def regime_glue(run):
    """The regime the solver sees: the callback's value at the (time, position) of every right-hand-side evaluation when a
    `get_regime` callback is given -- for every member, ordinal 0 included -- and the mineral's own regime otherwise; after the
    update the mineral's regime attribute is the last callback value."""
    core = real_module("pydrex.core")
    members = [int(r) for r in core.DeformationRegime]
    for r0 in (4, 0):
        for rcb in [None] + members:
            if rcb == r0:
                continue
            tag = f"regime-glue[mineral={r0},callback={rcb}]"
            h, ex = explore(run, tag, assemblage=(0,), regime=r0, get_regime=rcb, steps_choices=(1,), lifted=False, n_concrete=2)
            if ex is None:
                continue
            want = r0 if rcb is None else rcb
            ok, why = True, ""
            for pi, p in enumerate(ex.paths):
                tr = p.value
                if tr.exc is not None:
                    ok, why = False, f"path{pi} raised {type(tr.exc).__name__}: {tr.exc}"
                    break
                if not tr.deriv:
                    ok, why = False, f"path{pi}: the solver was never called"
                    break
                got = [int(k.get("regime", -99)) for k in tr.deriv]
                if any(g_ != want for g_ in got):
                    ok, why = False, f"path{pi}: solver received regimes {got[:4]}, expected {want}"
                    break
                if rcb is not None and (len(tr.regime_calls) != len(tr.deriv) or int(tr.mineral.regime) != rcb):
                    ok, why = False, f"path{pi}: {len(tr.regime_calls)} callback evaluations for {len(tr.deriv)} solver calls; mineral.regime afterwards {tr.mineral.regime!r}"
                    break
            info = None if ok or rcb is None else dict(checker="contracts.updfacets:nat_regime_cb", inputs=dict(r0=r0, rcb=rcb))
            run.exact(f"{tag}: every solver call receives regime {want}", FN_RHS, ok, why or f"{sum(len(p.value.deriv) for p in ex.paths)} solver calls on {len(ex.paths)} paths", info=info)


def nat_regime_cb(r0, rcb):
    """Real code, real solver: an update with a callback returning regime `rcb` equals the update of a mineral constructed with `rcb`."""
    import logging

    logging.disable(logging.CRITICAL)
    import pydrex
    from pydrex import core

    outs = []
    for mode in ("callback", "constructed"):
        m = pydrex.Mineral(phase=core.MineralPhase.olivine, fabric=core.MineralFabric.olivine_A,
                           regime=core.DeformationRegime(r0 if mode == "callback" else rcb), n_grains=30, seed=5)
        params = pydrex.DefaultParams().as_dict()
        params["number_of_grains"] = 30
        L = np.array([[0.0, 2.0, 0.0], [0.0, 0.0, 0.0], [0.0, 0.0, 0.0]])
        try:
            m.update_orientations(params, np.eye(3), lambda t, x: L, (0.0, 0.3, lambda t: np.zeros(3)),
                                  **({"get_regime": (lambda t, x: core.DeformationRegime(rcb))} if mode == "callback" else {}))
            outs.append((m.orientations[-1], m.fractions[-1]))
        except Exception as e:
            outs.append(type(e).__name__)
    if isinstance(outs[0], str) or isinstance(outs[1], str):
        ok = outs[0] == outs[1] if isinstance(outs[0], str) and isinstance(outs[1], str) else False
        return dict(ok=ok, observed=f"callback run: {outs[0] if isinstance(outs[0], str) else 'ok'}, constructed run: {outs[1] if isinstance(outs[1], str) else 'ok'}")
    d = float(max(np.abs(outs[0][0] - outs[1][0]).max(), np.abs(outs[0][1] - outs[1][1]).max()))
    return dict(ok=d <= 1e-12, observed=f"texture after an update with get_regime -> {rcb} differs from a mineral constructed with regime {rcb} by {d:.3g}")


@guarded
def rhs_safety(run):
    """The right-hand side never divides by zero / leaves its domain, for generic, rigid-rotation and zero velocity gradients
    (finite snapshots need a finite right-hand side)."""
    for label, kw in (("generic-L", dict(L_kind="sym")), ("rigid-rotation", dict(L_kind="skew")), ("zero-L", dict(L_kind="zero"))):
        for regime in (4, 6):
            h, ex = explore(run, f"rhs-safety/{label}/regime{regime}", assemblage=(0,), regime=regime, steps_choices=(1,), **kw)
            if ex is None:
                continue
            for pi, p in enumerate(ex.paths):
                tr = p.value
                t = f"rhs-safety/{label}/regime{regime}/path{pi}"
                base = list(ex.ctx.hyps) + [G >= 0, G < h.n.z]
                if tr.exc is not None:
                    run.prove(f"{t}/does not raise", FN, base + list(p.pc), z3.BoolVal(False), structural=True, detail=f"raised {type(tr.exc).__name__}: {tr.exc}")
                    continue
                for k, o in enumerate(p.oblig):
                    if any(nm.startswith("SUM") for nm in consts_of(o.goal)):
                        continue  # sums: callee contracts (gbslib)
                    run.prove(f"{t}/safety.{o.name}#{k}", FN_RHS, base + list(o.pc) + list(p.lazy), o.goal, structural=True, kind="safety", detail=f"{o.meta.get('what', o.name)}: {E.brief(o.goal, 140)}")


@guarded
def c04_rhs_frame(run):
    """Frame indifference of the glue in eval_rhs: in a rotated frame the solver receives the rotated strain rate and velocity
    gradient (same normalisation: the maximum principal strain rate is a rotation invariant, A-EIG), the co-rotated
    orientations and the same fractions; dF co-rotates."""
    for regime in (4, 6):
        tag = f"C04/eval_rhs[regime={regime}]"
        h1, ex1 = explore(run, tag + "/run1", regime=regime, assemblage=(0, 1), steps_choices=(1,))
        h2, ex2 = explore(run, tag + "/run2", regime=regime, assemblage=(0, 1), steps_choices=(1,), frame=True)
        if ex1 is None or ex2 is None:
            continue
        if len(ex1.paths) != len(ex2.paths):
            run.undecided(tag, FN, "different numbers of paths in the rotated frame")
            continue
        Q = h2.Q
        for pi, (p1, p2) in enumerate(zip(ex1.paths, ex2.paths)):
            t1_, t2_ = p1.value, p2.value
            t = f"{tag}/path{pi}"
            if t1_.exc is not None or t2_.exc is not None or len(t1_.deriv) != len(t2_.deriv):
                run.undecided(t, FN, "exception or different call structure in the rotated frame")
                continue
            H = list(ex2.ctx.hyps) + list(p1.pc) + list(p2.pc) + list(p1.lazy) + list(p2.lazy) + [G >= 0, G < h1.n.z]
            for k, (d1, d2) in enumerate(zip(t1_.deriv, t2_.deriv)):
                for key in ("strain_rate", "velocity_gradient"):
                    want = S._matmul(Q, S._matmul(np.asarray(d1[key], dtype=object).view(S.SymArray), Q.T))
                    goals = [E.eq_cleared(S.zz(a), S.zz(b)) for a, b in zip(np.asarray(d2[key], dtype=object).flat, np.asarray(want, dtype=object).flat)]
                    run.prove(f"{t}/rhs{k}/solver argument {key} is the rotated one (same normalisation)", FN_RHS, H, z3.And(*goals), structural=True)
                same = all(_same_val(d1[key], d2[key]) for key in d1 if key not in ("strain_rate", "velocity_gradient", "deformation_gradient_spin", "orientations", "fractions"))
                run.exact(f"{t}/rhs{k}/other solver arguments identical", FN_RHS, same, "regime, phase, fabric, n_grains, parameters, volume fraction")
                with S.quiet():
                    o1, o2 = d1["orientations"].fn(G), d2["orientations"].fn(G)
                    f1, f2 = d1["fractions"].fn(G), d2["fractions"].fn(G)
                    raw1 = LA.larr(f"yO{k + 1}", h1.n, (3, 3)).fn(G)
                rot_raw = S._matmul(raw1, Q.T)
                # abstract the rotated raw entries by fresh symbols rr_ij (== (raw Q^T)_ij) so that the clip conditions are linear
                rr = symarr("rr!", (3, 3))
                subs = [(S.zz(e), S.zz(r)) for e, r in zip(np.asarray(rot_raw, dtype=object).flat, rr.flat)]
                inrange = [z3.And(S.zz(v) >= -1, S.zz(v) <= 1) for v in list(np.asarray(raw1, dtype=object).flat) + list(rr.flat)]
                want = S._matmul(o1, Q.T)
                goals = [z3.substitute(S.zz(a), *subs) == z3.substitute(S.zz(b), *subs) for a, b in zip(np.asarray(o2, dtype=object).flat, np.asarray(want, dtype=object).flat)]
                inrange += [S.zz(e) == S.zz(r) for e, r in zip(np.asarray(rot_raw, dtype=object).flat, rr.flat)]  # definition of rr
                run.prove(f"{t}/rhs{k}/orientations handed to the solver co-rotate (entries within [-1,1] in both frames)", FN_RHS, list(ex2.ctx.hyps) + [c_ for c_ in p2.pc if "q_a" in str(c_)[:400]] + inrange, z3.And(*goals), structural=True)
                run.prove(f"{t}/rhs{k}/fractions handed to the solver unchanged", FN_RHS, H, E.eq_cleared(S.zz(f1), S.zz(f2)), structural=True)
            for k, ((tk1, y1, o1, x1), (tk2, y2, o2, x2)) in enumerate(zip(t1_.rhs, t2_.rhs)):
                if o1 is None or o2 is None:
                    continue
                a = np.asarray(block(o1, 0), dtype=object).reshape(3, 3).view(S.SymArray)
                b = np.asarray(block(o2, 0), dtype=object).reshape(3, 3)
                want = S._matmul(Q, a)
                goals = [E.eq_cleared(S.zz(u), S.zz(v)) for u, v in zip(b.flat, np.asarray(want, dtype=object).flat)]
                run.prove(f"{t}/rhs{k}/dF co-rotates: (Q L Q^T)(Q F) == Q (L F)", FN_RHS, H, z3.And(*goals), structural=True)
