"""C17 — mineral persistence round trip is exact for any history and any postfix set.

The real Mineral.save / load / from_file run against an *archive model* (np.savez, np.load, ZipFile, np.save, resolve_path
replaced by a map member-name -> array with a write log; assumption A-NPZ: the real NPZ codec stores and returns arrays
bit-for-bit under distinct member names).  Finite domains (phase, fabric, regime ordinals; postfix patterns; corrupt-state
classes) are enumerated exhaustively.  Real files: bounded stand-in.
"""
import io as _pyio
import itertools

import numpy as np

from pv import engine as E
from pv import native
from pv.util import real_module

FN = "pydrex.minerals.Mineral"


class Archive:
    def __init__(self):
        self.files = {}  # filename -> {member: array}
        self.log = []

    def stubs(arch):
        class ZipStub:
            def __init__(s, filename, mode="r", **kw):
                arch.log.append(("ZipFile", str(filename), mode))
                s.fn, s.mode = str(filename), mode
                if mode == "w":
                    arch.files[s.fn] = {}
                arch.files.setdefault(s.fn, {})

            def open(s, name, mode="r", **kw):
                arch.log.append(("zip.open", s.fn, name, mode))
                z = s

                class Member:
                    def __enter__(m):
                        return m

                    def __exit__(m, *a):
                        return False

                    def write(m, data):
                        arr = np.load(_pyio.BytesIO(data))
                        key = name[:-4] if name.endswith(".npy") else name
                        arch.files[z.fn][key] = arr

                return Member()

        class NPProxy:
            def __getattr__(s, k):
                return getattr(np, k)

            def savez(s, filename, **data):
                arch.log.append(("savez", str(filename), sorted(data)))
                arch.files[str(filename)] = {k: np.array(v, copy=True) for k, v in data.items()}

            def load(s, filename, *a, **k):
                arch.log.append(("load", str(filename)))
                return dict(arch.files[str(filename)])

        class IOStub:
            @staticmethod
            def resolve_path(p, *a, **k):
                arch.log.append(("resolve_path", str(p)))
                return p

            def __getattr__(s, k):  # anything else of pydrex.io is the real thing
                return getattr(real_module("pydrex.io"), k)

        class LogStub:
            def __getattr__(s, k):
                return lambda *a, **kk: None

        return dict(ZipFile=ZipStub, np=NPProxy(), _io=IOStub(), _log=LogStub())


def run(run):
    run.assume("S-PY", "A-NPZ")
    try:
        model_facets(run)
    except (AttributeError, TypeError, KeyError, IndexError, OSError) as e:  # OSError: the code reaches the real file system past the archive model
        import traceback

        run.undecided("archive-model", FN, f"not interpretable: {type(e).__name__}: {e} @ {traceback.format_exc().splitlines()[-3].strip()[:120]}")
    bounded(run)


def model_facets(run):
    M = real_module("pydrex.minerals")
    core = real_module("pydrex.core")
    arch = Archive()
    g = dict(M.__dict__)
    g.update(arch.stubs())
    save = E.rebind_function(M.Mineral.save, g)
    load = E.rebind_function(M.Mineral.load, g)
    from_file_f = E.rebind_function(M.Mineral.from_file.__func__, g)
    rng = np.random.default_rng(0)

    def mk(ph, fb, rg, n, steps):
        m = M.Mineral.__new__(M.Mineral)
        m.phase, m.fabric, m.regime = core.MineralPhase(ph), core.MineralFabric(fb), core.DeformationRegime(rg)
        m.n_grains, m.seed, m.lband, m.uband = n, None, None, None
        m.orientations = [rng.normal(size=(n, 3, 3)) for _ in range(steps)]
        m.fractions = [rng.random(n) for _ in range(steps)]
        return m

    def same(a, b):
        return (int(a.phase), int(a.fabric), int(a.regime), a.n_grains) == (int(b.phase), int(b.fabric), int(b.regime), b.n_grains) and len(a.fractions) == len(b.fractions) == len(a.orientations) == len(b.orientations) \
            and all(np.array_equal(x, y) and x.dtype == y.dtype for x, y in zip(a.fractions, b.fractions)) and all(np.array_equal(x, y) and x.dtype == y.dtype for x, y in zip(a.orientations, b.orientations))

    # (1) meta encoding and key set, exhaustively over the ordinals
    ok_meta, ok_keys, ok_rt, n_cases = True, True, True, 0
    for ph, fb in ((0, 0), (0, 1), (0, 2), (0, 3), (0, 4), (1, 5)):
        for rg in range(8):
            for pf in (None, "a", 0, "x_1"):
                arch.files.clear(); arch.log.clear()
                m = mk(ph, fb, rg, 3, 2)
                save(m, "f.npz", pf)
                n_cases += 1
                sfx = "" if pf is None else f"_{pf}"
                mem = arch.files["f.npz"]
                ok_keys = ok_keys and set(mem) == {"meta" + sfx, "fractions" + sfx, "orientations" + sfx}
                meta = mem.get("meta" + sfx)
                ok_meta = ok_meta and meta is not None and meta.dtype == np.uint8 and list(meta) == [ph, fb, rg]
                a = M.Mineral.__new__(M.Mineral); a.n_grains = 99
                load(a, "f.npz", pf)
                b = from_file_f(M.Mineral, "f.npz", pf) if hasattr(M.Mineral, "from_file") else None
                ok_rt = ok_rt and same(a, m) and b is not None and same(b, m)
    if ok_keys and ok_meta:
        run.exact(f"save writes exactly meta/fractions/orientations (with the postfix) [{n_cases} cases: 6 pairs x 8 regimes x 4 postfix forms, exhaustive]", FN + ".save", True, "member names of the archive")
        run.exact("save encodes meta as uint8 [phase, fabric, regime] in that order", FN + ".save", True, "all valid ordinals fit uint8")
    else:
        # the layout of the archive is not part of the property: recoverability is (next obligations and the bounded stand-in)
        run.undecided("archive layout (member names meta/fractions/orientations[_postfix], uint8 meta)", FN + ".save", "the archive is laid out differently from the contract's description; recoverability is decided by the round-trip obligations")
    run.exact("load and from_file restore phase, fabric, regime, n_grains and every snapshot in order (archive model)", FN + ".load", ok_rt, "compared by value and dtype, after a save with the same postfix",
              info=None if ok_rt else dict(checker="contracts.C17:nat_files", inputs=dict(seed=0, count=5)))
    # (2) several minerals under distinct postfixes in one archive, any save order, any load order
    ok_multi = True
    lost = []
    for names in (("p0", "p1", "p2"), ("0.5", "05", "0_5"), ("run-1", "run1", "run 1"), ("ab", "AB", "a.b"), (0, "0.0", "00"), ("run_a", "a", "_a")):
        for order in itertools.permutations(range(3)):
            arch.files.clear(); arch.log.clear()
            ms = [mk(0, k, 4, 2 + k, 1 + k) for k in range(3)]
            for k in order:
                save(ms[k], "g.npz", names[k])
            for k in order[::-1]:
                a = M.Mineral.__new__(M.Mineral); a.n_grains = 99
                load(a, "g.npz", names[k])
                if not (same(from_file_f(M.Mineral, "g.npz", names[k]), ms[k]) and same(a, ms[k])):
                    ok_multi = False
                    lost.append(f"postfix {names[k]!r} of {names!r}")
            modes = [e[2] for e in arch.log if e[0] == "ZipFile"]
            ok_multi = ok_multi and all(md == "a" for md in modes)
    run.exact("saves under distinct postfixes (also ones that differ only in punctuation, spacing or case) append to the archive and leave earlier members intact [6 postfix sets x all 6 save orders, both loaders]", FN + ".save", ok_multi,
              ("not recovered: " + ", ".join(lost[:3])) if lost else "ZipFile opened in append mode; every mineral recovered",
              info=None if ok_multi else dict(checker="contracts.C17:nat_files", inputs=dict(seed=1, count=8)))
    # (3) corrupt state and non-NPZ names: ValueError before any write / read
    ok_err = True
    detail = []
    for lab, mut in (("unequal snapshot counts (more fractions)", lambda m: m.fractions.append(m.fractions[0])), ("unequal snapshot counts (more orientations)", lambda m: m.orientations.append(m.orientations[0])),
                     ("fractions size != n_grains", lambda m: m.fractions.__setitem__(0, np.ones(5))), ("orientations size != n_grains", lambda m: m.orientations.__setitem__(0, np.ones((5, 3, 3)))),
                     ("n_grains stale", lambda m: setattr(m, "n_grains", 7)),
                     ("a later fractions snapshot of another size", lambda m: m.fractions.__setitem__(len(m.fractions) - 1, np.ones(5))),
                     ("a later orientations snapshot of another size", lambda m: m.orientations.__setitem__(len(m.orientations) - 1, np.ones((5, 3, 3))))):
        for pf in (None, "p"):
            arch.files.clear(); arch.log.clear()
            m = mk(0, 0, 4, 3, 3)
            mut(m)
            try:
                save(m, "h.npz", pf)
                ok_err = False; detail.append(f"{lab}: accepted")
            except ValueError:
                if arch.log:
                    ok_err = False; detail.append(f"{lab}: raised after {arch.log[0][0]}")
            except Exception as e:
                ok_err = False; detail.append(f"{lab}: {type(e).__name__}")
    run.exact("corrupt state is rejected with ValueError before any archive or directory access", FN + ".save", ok_err, "; ".join(detail) or "7 corruption classes x 2 postfix forms")
    ok_ext = True
    for name in ("a.txt", "a.npy", "anpz", "a.npz.bak"):
        for f_, args in ((load, (M.Mineral.__new__(M.Mineral), name)), (from_file_f, (M.Mineral, name))):
            arch.log.clear()
            try:
                f_(*args)
                ok_ext = False
            except ValueError:
                ok_ext = ok_ext and not arch.log
            except Exception:
                ok_ext = False
    run.exact("load and from_file reject non-.npz file names with ValueError before reading", FN + ".load", ok_ext, "")


def bounded(run):
    cnt = 40 if run.tier == "quick" else 400 * run.tmul
    jobs = [dict(seed=run.seed * 41 + k, count=cnt // 4) for k in range(4)]
    res, errs = native.pmap("contracts.C17", "nat_files", jobs)
    run.worker_errors(errs, len(jobs))
    ev = sum(r["evaluations"] for r in res if r and "_error" not in r)
    fails = [f for r in res if r and "_error" not in r for f in r["failures"]]
    run.bounded_result("real NPZ files: bit-for-bit round trips through load and from_file, 1-8 minerals under distinct postfixes (incl. 0 and '') in any save/load order, float64 edge values, corrupt state and bad names rejected without writing",
                       FN, f"{ev} archives", ev, fails, ev)


def nat_files(seed, count):
    import logging
    import os
    import tempfile

    logging.disable(logging.CRITICAL)
    import pydrex
    from pydrex import core

    rng = np.random.default_rng(seed)
    tmp = tempfile.mkdtemp(prefix="pvnpz", dir=os.environ.get("VERIF_SCRATCH"))
    fails, ev = [], 0
    pairs = [(0, 0), (0, 1), (0, 2), (0, 3), (0, 4), (1, 5)]
    for it in range(count):
        ev += 1
        msgs = []
        try:
            k = int(rng.integers(1, 9))
            ms = []
            for j in range(k):
                ph, fb = pairs[rng.integers(6)]
                n = int(rng.choice([1, 2, 20]))
                steps = int(rng.choice([1, 2, 5]))
                O = [rng.normal(size=(n, 3, 3)) for _ in range(steps)]
                f = [rng.random(n) for _ in range(steps)]
                f[0][0] = [np.nan, np.inf, -0.0, 5e-324, 1.7976931348623157e308][it % 5]
                m = pydrex.Mineral(phase=core.MineralPhase(ph), fabric=core.MineralFabric(fb), regime=core.DeformationRegime(int(rng.integers(8))), n_grains=n, fractions_init=f[0], orientations_init=O[0])
                m.orientations, m.fractions = list(O), list(f)
                ms.append(m)
            path = os.path.join(tmp, f"m{it}.npz")
            postfixes = [str(p) for p in rng.permutation(k)] if it % 3 else [0, ""][: min(k, 2)] + [f"z{j}" for j in range(max(0, k - 2))]
            if it % 4 == 1:  # distinct postfixes that differ only in punctuation, spacing or case
                postfixes = [str(p) for p in rng.permutation(["0.5", "05", "run-1", "run1", "run 1", "a.b", "a_b", "ab", "AB", "run_1", "a", "run_a", "b", "_b"])[:k]]
            order = rng.permutation(k)
            if k == 1 and it % 2:
                ms[0].save(path)
                postfixes = [None]
            else:
                for j in order:
                    ms[j].save(path, postfixes[j])

            def eq(a, b):
                return (int(a.phase), int(a.fabric), int(a.regime), a.n_grains) == (int(b.phase), int(b.fabric), int(b.regime), b.n_grains) and len(a.fractions) == len(b.fractions) and len(a.orientations) == len(b.orientations) \
                    and all(x.tobytes() == np.asarray(y).tobytes() for x, y in zip(a.fractions, b.fractions)) and all(x.tobytes() == np.asarray(y).tobytes() for x, y in zip(a.orientations, b.orientations))

            for j in rng.permutation(k):
                a = pydrex.Mineral.from_file(path, postfixes[j])
                b = pydrex.Mineral(n_grains=5, seed=1)
                b.load(path, postfixes[j])
                if not eq(a, ms[j]):
                    msgs.append(f"from_file(postfix={postfixes[j]!r}) does not restore mineral {j} of {k} bit-for-bit")
                if not eq(b, ms[j]):
                    msgs.append(f"load(postfix={postfixes[j]!r}) does not restore mineral {j} of {k} (n_grains {b.n_grains})")
            # corrupt state: rejected without writing
            bad = pydrex.Mineral(n_grains=4, seed=2)
            which = it % 4
            if which == 0:
                bad.fractions.append(bad.fractions[0])
            elif which == 1:
                bad.orientations.append(bad.orientations[0])
            elif which == 3:
                bad.fractions.append(bad.fractions[0].copy()); bad.orientations.append(bad.orientations[0].copy())
                bad.fractions.append(np.ones(7) / 7); bad.orientations.append(bad.orientations[0].copy())  # a LATER snapshot of another size
            else:
                bad.n_grains = 9
            p2 = os.path.join(tmp, f"bad{it}", "x.npz")
            try:
                bad.save(p2, [None, "q"][it % 2])
                msgs.append(f"corrupt state (class {which}) was saved")
            except ValueError:
                if os.path.exists(p2) or os.path.exists(os.path.dirname(p2)):
                    msgs.append("corrupt state raised ValueError but wrote to disk first")
            # a failed save must leave an existing archive exactly as it was
            good = pydrex.Mineral(n_grains=4, seed=3)
            p3 = os.path.join(tmp, f"keep{it}.npz")
            good.save(p3) if it % 2 else good.save(p3, "g")
            before = open(p3, "rb").read()
            try:
                bad.save(p3, [None, "q"][it % 2])
                msgs.append(f"corrupt state (class {which}) was saved into an existing archive")
            except ValueError:
                if open(p3, "rb").read() != before:
                    msgs.append("a failed save (corrupt state) modified the existing archive")
            os.unlink(p3)
            # mixed archive: one mineral saved without a postfix and another under a postfix in the same file
            if k >= 2 and it % 3 == 2:
                p4 = os.path.join(tmp, f"mix{it}.npz")
                ms[0].save(p4)
                ms[1].save(p4, "other")
                for lab, want, pf_ in (("un-postfixed", ms[0], None), ("postfixed", ms[1], "other")):
                    a = pydrex.Mineral.from_file(p4, pf_) if pf_ is not None else pydrex.Mineral.from_file(p4)
                    b = pydrex.Mineral(n_grains=5, seed=1)
                    b.load(p4, pf_) if pf_ is not None else b.load(p4)
                    if not (eq(a, want) and eq(b, want)):
                        msgs.append(f"mixed archive: the {lab} mineral is not restored intact")
                os.unlink(p4)
            # history: an archive that is rewritten after it has been read (same path, same shapes, hence the same byte size):
            # the next load must return what the file holds now
            first = ms[0]
            second = pydrex.Mineral(phase=first.phase, fabric=first.fabric, regime=first.regime, n_grains=first.n_grains, fractions_init=first.fractions[0], orientations_init=first.orientations[0])
            second.orientations = [o[::-1] + 1.0 for o in first.orientations]
            second.fractions = [f[::-1] * 0.5 + 0.25 for f in first.fractions]
            p5 = os.path.join(tmp, f"rw{it}.npz")
            pf5 = [None, "r", 0][it % 3]
            for stage, want in (("first written", first), ("rewritten with other data of the same shape", second), ("rewritten again", first)):
                if os.path.exists(p5) and pf5 is not None:
                    os.unlink(p5)
                want.save(p5) if pf5 is None else want.save(p5, pf5)
                a = pydrex.Mineral.from_file(p5) if pf5 is None else pydrex.Mineral.from_file(p5, pf5)
                b = pydrex.Mineral(n_grains=5, seed=1)
                b.load(p5) if pf5 is None else b.load(p5, pf5)
                if not (eq(a, want) and eq(b, want)):
                    msgs.append(f"archive {stage} (postfix {pf5!r}): the loaders do not return the current contents of the file")
            os.unlink(p5)
            for nm in ("x.txt", "x.npy"):
                try:
                    pydrex.Mineral.from_file(os.path.join(tmp, nm))
                    msgs.append("non-NPZ name accepted")
                except ValueError:
                    pass
            os.unlink(path)
        except Exception as e:
            import traceback

            msgs.append(f"raised {type(e).__name__}: {str(e)[:120]} @ {traceback.format_exc().splitlines()[-3].strip()[:80]}")
        if msgs:
            fails.append(dict(case=f"{seed}.{it}", checker="contracts.C17:nat_files_case", inputs=dict(seed=int(seed), it=it, count=count), what="; ".join(msgs[:3])))
    return dict(evaluations=ev, failures=fails[:5])


def nat_files_case(seed, it, count):
    r = nat_files(seed, count)
    hit = [f for f in r["failures"] if f["case"] == f"{seed}.{it}"]
    return dict(ok=not hit, failures=hit)
