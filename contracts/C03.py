"""C03 — rates conserve the texture manifold: skew spins, zero net volume change, linearity, no crash.

All facets are stated on the code's own outputs (no reference formula): see DESIGN.md section 6 / C03.
"""
import numpy as np
import z3

from contracts import corelib as CL
from pv import engine as E
from pv import larr as LA
from pv import native
from pv import sym as S
from pv.facets import discharge_safety, prove_entries
from pv.sym import Sym, sym, symarr
from pv.util import Z, alleq
from specs import drex_published as O

MOD = "pydrex.core"


def run(run):
    core = CL.load()
    run.assume("S-REAL", "S-PY", "S-NUMPY", "S-NUMBA", "A-QUAT", "A-SIGMA", "A-POW")
    items = [("skew",), ("helpers", "softest"), ("helpers", "slip_rates"), ("helpers", "energy"), ("derivatives",)] + [("grain", pr) for pr in CL.PAIRS]
    run.fork_map(_section, items)
    run.canary("safety-canary", f"{MOD}._get_rotation_and_strain", [z3.Real("x") >= 0], z3.Real("x") != 0)
    bounded(run)


def _section(run, item):
    core = CL.load()
    if item[0] == "skew":
        skew_facets(run, core)
    elif item[0] == "helpers":
        CL.helper_facets(run, core, which=(item[1],))
    elif item[0] == "derivatives":
        derivatives_facets(run, core)
    elif item[0] == "grain":
        safety_facets(run, core, [item[1]])


# ----------------------------------------------------------------------------- skew
def skew_facets(run, core):
    fn = f"{MOD}._get_orientation_change"
    g = E.rebind_module(core)
    f = g.get("_get_orientation_change")
    if f is None:
        run.undecided("skew", fn, "helper not found; the skew facet is covered by the bounded stand-in only")
        return
    c = E.Ctx([])
    E.Ctx.cur = c
    try:
        c.reset_path([])
        Qn, s, hq, q = S.quat_rotation("q")
        L, G, gam = symarr("L", (3, 3)), symarr("G", (3, 3)), sym("gam")
        dq = f(Qn, L, G, gam)
        Sk = S._matmul(Qn.T, dq)
        rp = _rp_skew(q, L, G, gam)
        prove_entries(run, "A^T dA + dA^T A == 0 for A in SO(3)", fn, c.hyps + hq + c.pc, Sk + Sk.T, S.to_obj(np.zeros((3, 3))), replay=rp)
        # general A: dA == A . W with W skew (so the statement does not depend on A being exactly orthonormal)
        A = symarr("A", (3, 3))
        dA = f(A, L, G, gam)
        W = np.empty((3, 3), dtype=object)
        for i in range(3):
            for j in range(3):
                W[i, j] = -(((L[i, j] - gam * G[i, j]) - (L[j, i] - gam * G[j, i])) / 2)
        prove_entries(run, "dA == A.W with W == -skew(L - gamma G)", fn, c.hyps + c.pc, dA, S._matmul(A, S.SymArray(W)), replay=None)
        run.exact("W skew (W + W^T == 0, syntactic)", fn, all(z3.is_true(z3.simplify(S.zz(W[i, j] + W[j, i]) == 0)) for i in range(3) for j in range(3)),
                  "the spin matrix of the contract is antisymmetric by construction")
        run.canary("skew-canary", fn, c.hyps + hq, S.zz(Sk[0, 1]) == 0)
    finally:
        E.Ctx.cur = None


def _rp_skew(q, L, G, gam):
    def replay(model):
        kw = dict(q=[E.model_value(model, t) for t in q], L=E.model_array(model, L).tolist(), G=E.model_array(model, G).tolist(), gam=E.model_value(model, gam.z))
        res = native.call("contracts.C03", "nat_skew", kw)
        return (not res["ok"]), dict(checker="contracts.C03:nat_skew", inputs=kw, observed=res, what="orientation rate is not A times a skew matrix")

    return replay


def nat_skew(q, L, G, gam):
    import pydrex.core as c

    if sum(x * x for x in q) == 0:
        q = [1.0, 0, 0, 0]
    A = CL.O_quat(np.array(q, float) / np.linalg.norm(q))
    dA = c._get_orientation_change(A, np.array(L, float), np.array(G, float), float(gam))
    Sk = A.T @ dA
    return dict(ok=bool(np.allclose(Sk + Sk.T, 0, atol=1e-9 * max(1.0, np.abs(dA).max()))), sym_part=float(np.abs(Sk + Sk.T).max()))


# ----------------------------------------------------------------------------- safety (no division by zero, no exception)
def safety_facets(run, core, pairs):
    """Every path of every core function returns normally for all finite inputs (all six pairs)."""
    fn = f"{MOD}._get_rotation_and_strain"
    for (ph, fb) in pairs:
        name = CL.PAIR_NAMES[(ph, fb)]
        gr = CL.GrainRun(core, ph, fb)
        ex = gr.explore()
        if ex is None:
            run.undecided(f"safety[{name}]", fn, "_get_rotation_and_strain not found")
            continue
        run.paths += len(ex.paths)
        if not ex.complete:
            run.undecided(f"safety[{name}]", fn, "exploration incomplete: " + "; ".join(ex.unsupported[:2]))
            continue
        if not ex.paths:
            run.checker_failures.append(f"safety[{name}]: no feasible path")
        rp = CL.replay_grain(ph, fb, gr.args)
        npre = 0
        conc = CL.concretisations(gr.args)
        for pi, p in enumerate(ex.paths):
            H = list(ex.ctx.hyps)
            tag = f"safety[{name}]/path{pi}"
            if p.exc is not None:
                run.prove(f"{tag}/no-exception", fn, H + list(p.pc), z3.BoolVal(False), replay=rp, kind="safety", lazy=p.lazy, concretise=conc,
                          detail=f"path raises {type(p.exc).__name__}: {str(p.exc)[:100]}")
                continue
            for k, o in enumerate(p.oblig):
                run.prove(f"{tag}/{o.kind}.{o.name}#{k}", fn, H + list(o.pc), o.goal, replay=rp, kind="safety", lazy=p.lazy, concretise=conc,
                          detail=f"{o.name}: {E.brief(o.goal, 160)}")
                npre += 1
            (dA, En), calls = p.value
            # shape of the result
            run.exact(f"{tag}/result-shape", fn, np.shape(dA) == (3, 3) and np.shape(En) == (), "returns a (3,3) array and a scalar")
            # skew facet through the caller: result[0] is zeros or exactly what _get_orientation_change returned
            oc = [c_ for c_ in calls if c_[0] == "orient"]
            if oc:
                same = all(z3.eq(S.zz(a), S.zz(b)) for a, b in zip(np.asarray(dA, dtype=object).flat, np.asarray(oc[-1][2], dtype=object).flat))
                passed_A = all(z3.eq(S.zz(a), S.zz(b)) for a, b in zip(np.asarray(oc[-1][1][0], dtype=object).flat, np.asarray(gr.args["A"], dtype=object).flat))
                if same and passed_A:
                    run.exact(f"{tag}/skew-through-caller", fn, True, "orientation rate is the spin contract's result for this grain's own orientation")
                else:
                    run.undecided(f"{tag}/skew-through-caller", fn, "result is not syntactically the spin contract's result for the grain's own orientation: decided by the bounded stand-in")
            else:
                zero = all((not isinstance(v, Sym)) and v == 0 for v in np.asarray(dA, dtype=object).flat)
                if zero:
                    run.exact(f"{tag}/skew-through-caller", fn, True, "early return: zero orientation rate (trivially A.W with W = 0)")
                else:
                    run.undecided(f"{tag}/skew-through-caller", fn, "orientation rate is not produced by the spin contract on this path (helper inlined?): decided by the bounded stand-in")
        # canary: the division obligation must be refutable when its guard is dropped


# ----------------------------------------------------------------------------- derivatives with symbolic n
def derivatives_facets(run, core):
    fn = f"{MOD}.derivatives"
    probs = CL.loop_rule_admissible(core.derivatives)
    if probs:
        run.undecided("derivatives/map-rule-admissible", fn, f"loop body carries locals across iterations {probs}: lifted run not admissible; bounded stand-in decides")
        return
    run.exact("derivatives/map-rule-admissible", fn, True, "AST: no local assigned in a grain loop is read after it or carried between iterations")
    for regime, damp in ((4, None), (6, None)):
        tag = f"derivatives[regime={regime}]"
        c = E.Ctx([])
        E.Ctx.cur = c
        try:
            c.reset_path([])
            dr = CL.DerivRun(core, core.DeformationRegime(regime))
            try:
                dO, df = dr.run()
            except E.UNSUPPORTED_EXC as e:
                run.undecided(tag, fn, f"unsupported construct in the lifted run: {e}")
                continue
            if not isinstance(dO, LA.LArr) or not isinstance(df, LA.LArr):
                run.undecided(tag, fn, "outputs are not per-grain arrays of symbolic length")
                continue
            G = LA.G
            n = dr.n
            sg = dr.sigma
            H = list(c.hyps) + list(c.pc) + [n.z >= 1, G >= 0, G < n.z]
            fG = S.zz(dr.f.at(G))
            EG = S.zz(LA.uf("E")(G))
            rate = S.zz(df.at(G))
            M, phi = dr.M.z, dr.phi.z
            run.exact(f"{tag}/map-rule: one grain loop, writes only at [g]", fn, dr.rule.loops == 1 and all(a.written_at is not None for a in dr.rule.written),
                      f"{dr.rule.loops} loop(s), {len(dr.rule.written)} lifted writes")
            # the per-grain solver is called for grain g with that grain's own orientation
            ok_call = len(dr.grain_calls) == 1 and all(
                z3.eq(S.zz(a), S.zz(b)) for a, b in zip(np.asarray(dr.grain_calls[0]["orientation"], dtype=object).flat, np.asarray(dr.O.fn(dr.grain_calls[0]["g"].z), dtype=object).flat))
            run.exact(f"{tag}/per-grain call uses the grain's own orientation", fn, ok_call, "orientation argument == orientations[g]")
            # (1) structure of the volume rate: rate(g) == c * f(g) * (SUMfE - E(g)) with c free of g
            if len(sg.sums) != 1:
                run.undecided(f"{tag}/sigma", fn, f"expected exactly one sum symbol (mean energy), found {len(sg.sums)}")
                continue
            (sname, summand), = sg.sums.items()
            S0 = z3.Real(sname)
            run.prove(f"{tag}/mean-energy summand == f(g)*E(g)", fn, H, summand == fG * EG, structural=True)
            cst = z3.Real("c!rate")
            # find c: rate is linear in f(g)*(S0-E(g)); take c := rate / (f (S0 - E)) symbolically by matching with phi*M*k
            # decomposition used by law LIN:  rate(g) == (c*S0)*f(g) + (-c)*(f(g)*E(g))
            k = z3.Real("k!damp")
            # k is existentially fixed: determine by solving at a sample point, then verify universally
            kval = _solve_damp(rate, fG, EG, S0, M, phi, G)
            if kval is None:
                run.undecided(f"{tag}/rate-structure", fn, "could not determine the g-free prefactor of the volume rate")
                continue
            cc = phi * M * kval
            run.prove(f"{tag}/LIN side condition: rate(g) == (c*S)*f(g) - c*(f(g)E(g)), c = phi*M*{kval}", fn, H, rate == (cc * S0) * fG + (-cc) * (fG * EG),
                      structural=True)
            run.exact(f"{tag}/LIN coefficients free of g", fn, LA.Sigma.free_of_g(cc) and LA.Sigma.free_of_g(cc * S0), "c and c*S do not mention the summation index")
            # (2) conclusion by LIN (lean/PvSigma.lean: lin, rates_sum_zero): SUM rate == c*S*SUMf - c*S
            SUMf, SUMrate = z3.Real("SUMf"), z3.Real("SUMrate")
            lin_fact = SUMrate == (cc * S0) * SUMf + (-cc) * S0
            run.prove(f"{tag}/sum of volume rates == 0 when fractions sum to 1", fn, H + [lin_fact, SUMf == 1], SUMrate == 0,
                      detail="SUMrate == c*S*SUMf - c*S  (law LIN)  and SUMf == 1  ==>  SUMrate == 0")
            # (3) dead grains, M* = 0, linearity, growth sign
            run.prove(f"{tag}/zero-volume grain has zero volume rate", fn, H + [fG == 0], rate == 0, structural=True)
            run.prove(f"{tag}/zero mobility => zero volume rates", fn, H + [M == 0], rate == 0, structural=True)
            kk = z3.Real("kk")
            run.prove(f"{tag}/volume rate linear in M*", fn, H, z3.substitute(rate, (M, kk * M)) == kk * rate, structural=True)
            run.prove(f"{tag}/volume rate linear in the phase fraction", fn, H, z3.substitute(rate, (phi, kk * phi)) == kk * rate, structural=True)
            run.prove(f"{tag}/grain grows iff its energy is below the mean", fn, H + [phi * M * fG > 0], (rate > 0) == (EG < S0), structural=True)
            # (4) orientation rates: independent of M*, phi, f; a g-free multiple of the spin contract's result (=> skew)
            dOG = dO.at(G)
            dAG = LA.uf("dA", (3, 3))(G)
            dz = Z(dOG)
            indep = not any(LA._mentions(t, v) for t in dz.flat for v in (M, phi)) and not any(_mentions_uf(t, "f") for t in dz.flat)
            run.exact(f"{tag}/orientation rates do not depend on M*, phase fraction or volumes", fn, indep, "no occurrence of M, phi, f in dO(g)")
            kd = _solve_scale(dz, Z(dAG))
            if kd is None:
                run.undecided(f"{tag}/orientation-rate structure", fn, "orientation rate is not a constant multiple of the spin contract's result")
            else:
                prove_entries(run, f"{tag}/dO(g) == {kd} * dA(g) (skew preserved)", fn, H, dOG, S.ew(lambda v: v * kd, dAG))
            run.canary(f"{tag}/canary", fn, H, rate == rate + 1)
        finally:
            E.Ctx.cur = None
            LA.Sigma.cur = None
            LA.LoopRule.cur = None


def _mentions_uf(t, name, seen=None):
    if seen is None:
        seen = set()
    if t.get_id() in seen:
        return False
    seen.add(t.get_id())
    if z3.is_app(t) and t.decl().name() == name:
        return True
    return any(_mentions_uf(c, name, seen) for c in t.children())


def _solve_damp(rate, fG, EG, S0, M, phi, G):
    """Find the rational k with rate == phi*M*k*f*(S0-E) by evaluating at one point; verified universally afterwards."""
    s = z3.Solver()
    k = z3.Real("k!")
    s.add(fG == 1, EG == 0, S0 == 1, M == 1, phi == 1, rate == k)
    if s.check() != z3.sat:
        return None
    v = s.model().eval(k, model_completion=True)
    return v if z3.is_rational_value(v) else None


def _solve_scale(dz, az):
    s = z3.Solver()
    k = z3.Real("k!")
    s.add(az.flat[0] == 1, dz.flat[0] == k)
    if s.check() != z3.sat:
        return None
    v = s.model().eval(k, model_completion=True)
    if not z3.is_rational_value(v):
        return None
    from fractions import Fraction

    return Fraction(v.numerator_as_long(), v.denominator_as_long())


# ----------------------------------------------------------------------------- bounded stand-in (native, JIT)
def bounded(run):
    nscen = 600 if run.tier == "quick" else 6000 * run.tmul
    jobs = [dict(seed=run.seed * 1000003 + k, count=nscen // 12) for k in range(12)]
    res, errs = native.pmap("contracts.C03", "nat_sweep", jobs)
    run.worker_errors(errs, len(jobs))
    fails, ev, distinct = [], 0, 0
    for r in res:
        if r is None or "_error" in r:
            continue
        ev += r["evaluations"]
        distinct += r["distinct"]
        fails += r["failures"]
    if errs:
        run.note(f"bounded stand-in worker errors: {errs[:2]}")
    run.bounded_result("derivatives: skew, sum-zero, dead grains, linearity, sign, finiteness (native, compiled)", f"{MOD}.derivatives",
                       f"{ev} random calls: 6 fabrics x 2 regimes, n_grains in 1..40 and 1024/2000/4096/4097/8192, axis-aligned and zero-volume grains, L incl. rank-1/zero-trace/zero", ev, fails, distinct)


def nat_sweep(seed, count):
    import pydrex.core as c

    rng = np.random.default_rng(seed)
    failures, distinct = [], 0
    ev = 0
    for it in range(count):
        ph, fb = CL.PAIRS[rng.integers(6)]
        regime = int(rng.choice([4, 6]))
        # mostly small aggregates; some large ones, also sizes that are multiples of powers of two (block-wise accumulations)
        n = int(rng.choice([1, 2, 3, 5, 17, 40])) if it % 25 else [2000, 4096, 8192, 1024, 4097][(it // 25 + seed) % 5]
        As = np.array([CL.random_orientation(rng) for _ in range(n)])
        kind = rng.integers(5)
        if kind == 0:  # axis-aligned grains (signed permutation matrices) with vanishing resolved shear
            for g in range(min(n, 3)):
                P = np.eye(3)[rng.permutation(3)] * rng.choice([-1, 1], size=(3, 1))
                if np.linalg.det(P) < 0:
                    P[0] *= -1
                As[g] = P
        L = rng.normal(size=(3, 3))
        lk = rng.integers(6)
        if lk == 0:
            L = np.zeros((3, 3)); i, j = rng.choice(3, 2, replace=False); L[i, j] = rng.choice([-2.0, 2.0, 1.0])
        elif lk == 1:
            L = np.diag(rng.normal(size=3)); L -= np.trace(L) / 3 * np.eye(3)
        elif lk == 2:
            L = L - L.T + np.diag([1.0, -1.0, 0.0])
        D = (L + L.T) / 2
        em = np.abs(np.linalg.eigvalsh(D)).max()
        if em > 0:
            L, D = L / em, D / em
        f = rng.random(n) ** rng.choice([1, 4])
        if n > 2 and rng.random() < 0.4:
            f[rng.integers(n)] = 0.0
        if rng.random() < 0.2:
            f = np.full(n, 1e-9); f[0] = 1.0
        f /= f.sum()
        p, nn, lam = rng.uniform(1, 2), rng.uniform(2, 5), rng.uniform(0, 10)
        M, phi = rng.choice([0.0, 10.0, 125.0, 200.0]), rng.choice([1.0, 0.7, 0.3])
        args = (regime, ph, fb, n, As, f, D, L, np.zeros((3, 3)), p, nn, lam, M, phi)
        ev += 1
        distinct += 1
        case = dict(seed=int(seed), it=it)
        inp = dict(regime=regime, phase=ph, fabric=fb, n=n, As=As.tolist() if n <= 5 else "seeded", f=f.tolist() if n <= 5 else "seeded", L=L.tolist(), p=p, nn=nn, lam=lam, M=float(M), phi=float(phi))
        try:
            dO, df = c.derivatives(*args)
        except Exception as e:
            failures.append(dict(case=f"{seed}.{it}", checker="contracts.C03:nat_case", inputs=dict(seed=int(seed), it=it, count=count), what=f"derivatives raised {type(e).__name__}: {e}", detail=inp))
            continue
        msgs = []
        if not (np.all(np.isfinite(dO)) and np.all(np.isfinite(df))):
            msgs.append("non-finite rates")
        else:
            sk = np.einsum("gji,gjk->gik", As, dO)
            scale = max(1.0, np.abs(dO).max())
            if np.abs(sk + sk.transpose(0, 2, 1)).max() > 1e-9 * scale:
                msgs.append("A^T dA not skew")
            tot = max(1e-300, np.abs(df).sum())
            if abs(df.sum()) > 1e-9 * max(1.0, tot):
                msgs.append(f"volume rates sum to {df.sum():.3e}")
            if np.any(df[f == 0] != 0):
                msgs.append("zero-volume grain has non-zero rate")
            if M == 0 and np.any(df != 0):
                msgs.append("M*=0 but non-zero volume rates")
            a2 = list(args); a2[12] = 2 * M
            _, df2 = c.derivatives(*a2)
            a3 = list(args); a3[13] = phi / 2
            dO3, df3 = c.derivatives(*a3)
            if not np.allclose(df2, 2 * df, rtol=1e-12, atol=1e-14 * max(1, np.abs(df).max())):
                msgs.append("not linear in M*")
            if not np.allclose(df3, df / 2, rtol=1e-12, atol=1e-14 * max(1, np.abs(df).max())) or not np.array_equal(dO3, dO):
                msgs.append("not linear in the phase fraction / orientation rates depend on it")
            # growth sign vs strain energies from the real per-grain solver
            Es = np.array([c._get_rotation_and_strain(c.MineralPhase(ph), c.MineralFabric(fb), As[g], D, L, p, nn, lam)[1] for g in range(min(n, 40))])
            if n <= 40 and M * phi > 0:
                mean = float(np.sum(f * Es))
                for g in range(n):
                    if f[g] > 0 and abs(Es[g] - mean) > 1e-9 * max(1.0, abs(mean)):
                        if (df[g] > 0) != (Es[g] < mean):
                            msgs.append(f"grain {g}: growth sign inconsistent with energy vs mean")
                            break
        if msgs:
            failures.append(dict(case=f"{seed}.{it}", checker="contracts.C03:nat_case", inputs=dict(seed=int(seed), it=it, count=count), what="; ".join(msgs), detail=inp))
    return dict(evaluations=ev, distinct=distinct, failures=failures[:5])


def nat_case(seed, it, count):
    """Replay of one bounded-stand-in scenario (regenerated from its seed)."""
    r = nat_sweep(seed, count)
    hit = [f for f in r["failures"] if f["case"] == f"{seed}.{it}"]
    return dict(ok=not hit, failures=hit)
