"""C19 — parameter records and configuration files mean what they declare.

Finite domains enumerated exhaustively on the real code: every field of DefaultParams, every preset class of pydrex.mock
(declared values read from the class body's AST), all subsets of the optional keys of [parameters]/[output] per input mode,
single-fault invalid configurations.  tomllib and the file system are exercised for real (A-CODEC).
"""
import ast
import dataclasses
import inspect
import itertools
import os
import tempfile
import textwrap

import numpy as np

from pv.util import real_module

MOD = "pydrex.core"


def run(run):
    run.assume("S-PY", "A-CODEC")
    params_facets(run)
    preset_facets(run)
    config_facets(run)
    # exhaustive concrete enumeration: the bounded stand-in of this property is a second seed-dependent sample of the same space
    run.bounded_result("random subsets of optional configuration keys (seeded sample of the enumerated space)", "pydrex.io.parse_config", "sample", *_sample(run))


def params_facets(run):
    core = real_module(MOD)
    fn = f"{MOD}.DefaultParams"
    d = core.DefaultParams()
    ok_hash = isinstance(hash(d), int)
    frozen = True
    for f in dataclasses.fields(d):
        try:
            setattr(d, f.name, getattr(d, f.name))
            frozen = False
        except dataclasses.FrozenInstanceError:
            pass
        except Exception:
            frozen = False
    try:
        d.new_attribute = 1
        frozen = False
    except dataclasses.FrozenInstanceError:
        pass
    except Exception:
        frozen = False
    run.exact(f"DefaultParams is hashable and every one of its {len(dataclasses.fields(d))} fields is immutable [exhaustive]", fn, ok_hash and frozen, "")
    dd = d.as_dict()
    ok = set(dd) == {f.name for f in dataclasses.fields(d)} and all(dd[k] == getattr(d, k) for k in dd) and core.DefaultParams(**dd) == d and hash(core.DefaultParams(**dd)) == hash(d)
    # as_dict reflects the instance's values, also falsy ones
    for k, v in (("gbm_mobility", 0), ("gbs_threshold", 0.0), ("nucleation_efficiency", 0.0), ("number_of_grains", 1)):
        x = core.DefaultParams(**{k: v})
        ok = ok and x.as_dict()[k] == v and type(x.as_dict()[k]) is type(v) and core.DefaultParams(**x.as_dict()) == x
    run.exact("DefaultParams round-trips through as_dict() (keys = fields, values = attribute values, falsy values included)", fn, ok, "",
              info=None if ok else dict(checker="contracts.C19:nat_params", inputs={}))
    mutable = isinstance(dd, dict)
    dd["number_of_grains"] = 9999
    run.exact("as_dict() returns a mutable copy that does not alias the record", fn, mutable and d.number_of_grains != 9999, "")


def preset_facets(run):
    core = real_module(MOD)
    mock = real_module("pydrex.mock")
    tree = ast.parse(inspect.getsource(mock))
    n = 0
    for node in tree.body:
        if not isinstance(node, ast.ClassDef):
            continue
        cls = getattr(mock, node.name)
        if not (isinstance(cls, type) and issubclass(cls, core.DefaultParams)):
            continue
        declared = {}
        for st in node.body:
            tgt = None
            if isinstance(st, ast.AnnAssign) and isinstance(st.target, ast.Name) and st.value is not None:
                tgt, val = st.target.id, st.value
            elif isinstance(st, ast.Assign) and len(st.targets) == 1 and isinstance(st.targets[0], ast.Name):
                tgt, val = st.targets[0].id, st.value
            if tgt:
                declared[tgt] = eval(compile(ast.Expression(val), "<preset>", "eval"), dict(vars(mock)))
        n += 1
        try:
            inst = cls()
            dd = inst.as_dict()
            bad = [k for k, v in declared.items() if not (getattr(inst, k) == v and dd.get(k) == v)]
            okh = isinstance(hash(inst), int)
            try:
                inst.gbm_mobility = 1
                okf = False
            except dataclasses.FrozenInstanceError:
                okf = True
        except Exception as e:
            bad, okh, okf = [f"construction raised {type(e).__name__}: {e}"], False, False
        run.exact(f"preset {node.name}: attribute access and as_dict() give exactly the {len(declared)} declared values; immutable and hashable", f"pydrex.mock.{node.name}", not bad and okh and okf,
                  f"differs for {bad}" if bad else "declared values read from the class body",
                  info=None if not bad else dict(checker="contracts.C19:nat_params", inputs={}))
    run.exact("presets found by introspection", "pydrex.mock", n >= 1, f"{n} preset classes")


def nat_params():
    import pydrex.mock as mock
    from pydrex import core

    msgs = []
    for nm in dir(mock):
        c = getattr(mock, nm)
        if isinstance(c, type) and issubclass(c, core.DefaultParams) and c is not core.DefaultParams:
            for k, v in vars(c).items():
                if k in c.__dataclass_fields__ and not k.startswith("_"):
                    if getattr(c(), k) != v or c().as_dict()[k] != v:
                        msgs.append(f"{nm}.{k}")
    x = core.DefaultParams(gbm_mobility=0)
    if x.as_dict()["gbm_mobility"] != 0:
        msgs.append("as_dict drops falsy values")
    return dict(ok=not msgs, messages=msgs)


BASE_INPUT = 'velocity_gradient = ["simple_shear_2d", "Y", "X", 5e-6]\nlocations_initial = "start.scsv"\ntimestep = 1e9\n'


def _write(tmp, text):
    p = os.path.join(tmp, "cfg.toml")
    with open(p, "w") as f:
        f.write(text)
    with open(os.path.join(tmp, "start.scsv"), "w") as f:
        f.write("---\nschema:\n  delimiter: ','\n  missing: '-'\n  fields:\n    - name: X\n      type: float\n      fill: NaN\n    - name: Z\n      type: float\n      fill: NaN\n---\nX,Z\n1,2\n")
    return p


def _toml_val(v):
    if isinstance(v, str):
        return f'"{v}"'
    if isinstance(v, (list, tuple)):
        return "[" + ", ".join(_toml_val(x) for x in v) + "]"
    if isinstance(v, bool):
        return "true" if v else "false"
    return repr(v)


PARAM_OPTS = {"phase_assemblage": ["olivine", "enstatite"], "phase_fractions": [0.7, 0.3], "initial_olivine_fabric": "B", "stress_exponent": 1.4, "deformation_exponent": 3.0,
              "gbm_mobility": 10, "gbs_threshold": 0.2, "nucleation_efficiency": 4.0, "number_of_grains": 100}
OUT_OPTS = {"directory": "out", "raw_output": ["olivine"], "diagnostics": ["olivine"], "anisotropy": ["Voigt"], "log_level": "DEBUG"}


def _check_cfg(IO, core, tmp, pkeys, okeys, with_output=True):
    ptxt = "".join(f"{k} = {_toml_val(PARAM_OPTS[k])}\n" for k in pkeys)
    otxt = "".join(f"{k} = {_toml_val(OUT_OPTS[k])}\n" for k in okeys)
    text = "[input]\n" + BASE_INPUT + ("[output]\n" + otxt if with_output else "") + ("[parameters]\n" + ptxt if pkeys else "")
    # assemblage and fractions belong together
    cfg = IO.parse_config(_write(tmp, text))
    P = cfg["parameters"]
    d = core.DefaultParams()
    msgs = []
    for k in dataclasses.asdict(d):
        if k in pkeys:
            continue
        if k == "phase_assemblage" or k == "phase_fractions":
            continue
        if P.get(k) != getattr(d, k):
            msgs.append(f"omitted parameters.{k} != documented default")
    if len(P["phase_assemblage"]) != len(P["phase_fractions"]) or abs(sum(P["phase_fractions"]) - 1) > 1e-16:
        msgs.append("phase lists inconsistent")
    if not all(isinstance(x, core.MineralPhase) for x in P["phase_assemblage"]) or not isinstance(P["initial_olivine_fabric"], core.MineralFabric):
        msgs.append("phases/fabric not enumeration-typed")
    if "initial_olivine_fabric" in pkeys and P["initial_olivine_fabric"] != core.MineralFabric.olivine_B:
        msgs.append("given fabric letter not honoured")
    O = cfg.get("output")
    if O is None:
        msgs.append("no [output] table in the result")
    else:
        exp_phases = list(P["phase_assemblage"])
        for k in ("raw_output", "diagnostics"):
            want = [core.MineralPhase.olivine] if k in okeys else exp_phases
            if O.get(k) != want:
                msgs.append(f"output.{k} = {O.get(k)} (expected {want})")
        if "anisotropy" not in okeys and O.get("anisotropy") != ["Voigt", "hexaxis", "moduli", "%decomp"]:
            msgs.append("output.anisotropy default")
        if O.get("log_level") != ("DEBUG" if "log_level" in okeys else "WARNING"):
            msgs.append("output.log_level default")
        if O.get("paths", "x") is not None:
            msgs.append("output.paths default")
        if "directory" not in O:
            msgs.append("output.directory default")
    if "name" not in cfg:
        msgs.append("name default")
    return msgs


def config_facets(run):
    import logging

    logging.disable(logging.CRITICAL)
    IO = real_module("pydrex.io")
    core = real_module(MOD)
    err = real_module("pydrex.exceptions").ConfigError
    fn = "pydrex.io.parse_config"
    tmp = tempfile.mkdtemp(prefix="pvcfg", dir=os.environ.get("VERIF_SCRATCH"))
    cwd = os.getcwd()
    os.chdir(tmp)
    import copy

    def module_state():
        return {k: copy.deepcopy(v) for k, v in vars(IO).items() if isinstance(v, (dict, list, set)) and not k.startswith("__")}

    state0 = module_state()
    dirty = []

    _check_plain = _check_cfg

    def _check_cfg_framed(IO_, core_, tmp_, pkeys, okeys, with_output=True):
        try:
            return _check_plain(IO_, core_, tmp_, pkeys, okeys, with_output)
        finally:
            now = module_state()
            if now != state0 and len(dirty) < 3:
                dirty.append(f"after parsing (parameters {list(pkeys)}, output {list(okeys)}, [output] table {'present' if with_output else 'absent'}): " + ", ".join(k for k in now if now[k] != state0.get(k)))

    try:
        bad, n = [], 0
        pk = [k for k in PARAM_OPTS if k not in ("phase_assemblage", "phase_fractions")]
        # all subsets of the optional [output] keys (x with/without the phase lists), and all subsets of the [parameters] keys
        for r in range(len(OUT_OPTS) + 1):
            for okeys in itertools.combinations(OUT_OPTS, r):
                for pkeys in ((), ("phase_assemblage", "phase_fractions")):
                    n += 1
                    try:
                        m = _check_cfg_framed(IO, core, tmp, pkeys, okeys)
                    except Exception as e:
                        m = [f"raised {type(e).__name__}: {str(e)[:80]}"]
                    if m:
                        bad.append((pkeys, okeys, m[:2]))
        for r in range(len(pk) + 1):
            for pkeys in itertools.combinations(pk, r):
                n += 1
                try:
                    m = _check_cfg_framed(IO, core, tmp, pkeys, ())
                except Exception as e:
                    m = [f"raised {type(e).__name__}: {str(e)[:80]}"]
                if m:
                    bad.append((pkeys, (), m[:2]))
        # no [output] table at all, alternating between assemblages (a parse must not depend on the parses before it)
        for pkeys in ((), ("phase_assemblage", "phase_fractions"), (), ("phase_assemblage", "phase_fractions")):
            n += 1
            try:
                m = _check_cfg_framed(IO, core, tmp, pkeys, (), with_output=False)
            except Exception as e:
                m = [f"raised {type(e).__name__}: {str(e)[:80]}"]
            if m:
                bad.append((f"no [output] table, parameters {list(pkeys)}, after parses of other configurations", m[:2]))
        run.exact(f"parse_config: every subset of the optional keys parses with the documented defaults [{n} configurations, exhaustive]", fn, not bad, f"{len(bad)} failing, e.g. {bad[:2]}" if bad else "defaults = DefaultParams values; raw_output/diagnostics default to all simulated phases",
                  info=None if not bad else dict(checker="contracts.C19:nat_config", inputs=dict(pkeys=list(bad[0][0]) if isinstance(bad[0][0], tuple) else [], okeys=list(bad[0][1]) if isinstance(bad[0][1], tuple) else [], with_output=isinstance(bad[0][0], tuple))))
        # phase lists and fractions: every valid combination keeps equal-length lists, fractions summing to one, typed phases
        # (single phase, both orders, equal fractions, a phase with fraction exactly 0 or exactly 1)
        badp = []
        for phases, fracs in ((["olivine"], [1.0]), (["enstatite"], [1.0]), (["olivine", "enstatite"], [0.7, 0.3]), (["enstatite", "olivine"], [0.25, 0.75]), (["olivine", "enstatite"], [0.5, 0.5]),
                              (["olivine", "enstatite"], [1.0, 0.0]), (["olivine", "enstatite"], [0.0, 1.0]), (["olivine", "olivine"], [0.5, 0.5])):
            try:
                cfg = IO.parse_config(_write(tmp, "[input]\n" + BASE_INPUT + f"[parameters]\nphase_assemblage = {_toml_val(phases)}\nphase_fractions = {_toml_val(fracs)}\n"))
                P_ = cfg["parameters"]
                okp = (len(P_["phase_assemblage"]) == len(P_["phase_fractions"]) == len(phases) and abs(sum(P_["phase_fractions"]) - 1) <= 1e-16 and list(P_["phase_fractions"]) == fracs
                       and [p_.name for p_ in P_["phase_assemblage"]] == phases and all(isinstance(p_, core.MineralPhase) for p_ in P_["phase_assemblage"])
                       and cfg["output"]["raw_output"] == list(P_["phase_assemblage"]) and cfg["output"]["diagnostics"] == list(P_["phase_assemblage"]))
                if not okp:
                    badp.append(f"{phases} {fracs}: parsed to {P_['phase_assemblage']} / {P_['phase_fractions']}")
            except Exception as e:
                badp.append(f"{phases} {fracs}: {type(e).__name__}: {str(e)[:60]}")
        run.exact("parse_config: valid phase lists / fractions (single phase, both orders, a fraction of exactly 0 or 1, a repeated phase) parse to equal-length lists of the given phases and fractions [8 cases]", fn, not badp, "; ".join(badp[:3]),
                  info=None if not badp else dict(checker="contracts.C19:nat_config_phases", inputs=dict(rounds=1)))
        # fabric letters
        okf = True
        for letter, fab in zip("ABCDE", (core.MineralFabric.olivine_A, core.MineralFabric.olivine_B, core.MineralFabric.olivine_C, core.MineralFabric.olivine_D, core.MineralFabric.olivine_E)):
            try:
                cfg = IO.parse_config(_write(tmp, "[input]\n" + BASE_INPUT + f'[parameters]\ninitial_olivine_fabric = "{letter}"\n'))
                okf = okf and cfg["parameters"]["initial_olivine_fabric"] == fab
            except Exception:
                okf = False
        run.exact("parse_config/frame: no module-level state of pydrex.io is modified by any of these parses (a later parse cannot depend on an earlier one)", fn, not dirty, "; ".join(dirty) or "dict/list/set globals compared by value after every parse",
                  info=None if not dirty else dict(checker="contracts.C19:nat_config_history", inputs=dict(rounds=2)))
        run.exact("parse_config: fabric letters A-E map to the olivine fabrics [exhaustive]", fn, okf, "")
        # single-fault invalid configurations
        faults = {
            "fractions do not sum to one": '[parameters]\nphase_assemblage = ["olivine", "enstatite"]\nphase_fractions = [0.7, 0.2]\n',
            "fractions miss one by 1e-6": '[parameters]\nphase_assemblage = ["olivine", "enstatite"]\nphase_fractions = [0.333333, 0.666666]\n',
            "fractions exceed one by 5e-6": '[parameters]\nphase_assemblage = ["olivine", "enstatite"]\nphase_fractions = [0.7, 0.300005]\n',
            "fractions miss one by 1e-9": '[parameters]\nphase_assemblage = ["olivine", "enstatite"]\nphase_fractions = [0.5, 0.499999999]\n',
            "more phases than fractions": '[parameters]\nphase_assemblage = ["olivine", "enstatite"]\nphase_fractions = [1.0]\n',
            "more fractions than phases": '[parameters]\nphase_assemblage = ["olivine"]\nphase_fractions = [0.5, 0.5]\n',
            "unknown phase": '[parameters]\nphase_assemblage = ["quartz"]\nphase_fractions = [1.0]\n',
            "unknown fabric letter": '[parameters]\ninitial_olivine_fabric = "Q"\n',
            **{f"fabric given as {v!r} (a fragment of an enumeration member name, not one of the letters A-E)": f'[parameters]\ninitial_olivine_fabric = "{v}"\n'
               for v in sorted({frag for m in core.MineralFabric for frag in (m.name, m.name.split("_", 1)[-1], m.name.split("_", 1)[-1].lower(), m.name.split("_", 1)[-1] * 2, m.name.split("_", 1)[0], "")} - set("ABCDE"))},
            "output for a phase that is not simulated": '[output]\nraw_output = ["enstatite"]\n',
            "unknown output phase": '[output]\ndiagnostics = ["quartz"]\n',
            "too few creep-law coefficients": '[parameters]\ndisl_coefficients = [1.0, 2.0]\n',
        }
        badf = []
        for lab, extra in faults.items():
            try:
                IO.parse_config(_write(tmp, "[input]\n" + BASE_INPUT + extra))
                badf.append(f"{lab}: accepted")
            except err:
                pass
            except Exception as e:
                badf.append(f"{lab}: {type(e).__name__}")
        for lab, text in (("missing [input]", "[parameters]\nstress_exponent = 1.5\n"), ("missing timestep without paths", '[input]\nvelocity_gradient = ["simple_shear_2d", "Y", "X", 5e-6]\nlocations_initial = "start.scsv"\n'),
                          ("non-numeric timestep", '[input]\nvelocity_gradient = ["simple_shear_2d", "Y", "X", 5e-6]\nlocations_initial = "start.scsv"\ntimestep = "fast"\n')):
            try:
                IO.parse_config(_write(tmp, text))
                badf.append(f"{lab}: accepted")
            except err:
                pass
            except Exception as e:
                badf.append(f"{lab}: {type(e).__name__}")
        run.exact(f"parse_config: every single-fault invalid configuration (near misses of the fraction sum included) raises ConfigError [{len(faults) + 3} classes]", fn, not badf, "; ".join(badf) or "all rejected")
    finally:
        os.chdir(cwd)


def nat_config(pkeys=(), okeys=(), with_output=True):
    import logging

    logging.disable(logging.CRITICAL)
    import pydrex.io as IO
    from pydrex import core

    tmp = tempfile.mkdtemp(prefix="pvcfg", dir=os.environ.get("VERIF_SCRATCH"))
    cwd = os.getcwd()
    os.chdir(tmp)
    try:
        try:
            m = _check_cfg(IO, core, tmp, tuple(pkeys), tuple(okeys), with_output)
        except Exception as e:
            m = [f"raised {type(e).__name__}: {str(e)[:100]}"]
    finally:
        os.chdir(cwd)
    return dict(ok=not m, messages=m)


def nat_config_phases(rounds=1):
    import logging

    logging.disable(logging.CRITICAL)
    import pydrex.io as IO

    tmp = tempfile.mkdtemp(prefix="pvcfg", dir=os.environ.get("VERIF_SCRATCH"))
    cwd = os.getcwd()
    os.chdir(tmp)
    msgs = []
    try:
        for phases, fracs in ((["olivine", "enstatite"], [1.0, 0.0]), (["olivine", "enstatite"], [0.0, 1.0]), (["enstatite", "olivine"], [0.25, 0.75])):
            try:
                P_ = IO.parse_config(_write(tmp, "[input]\n" + BASE_INPUT + f"[parameters]\nphase_assemblage = {_toml_val(phases)}\nphase_fractions = {_toml_val(fracs)}\n"))["parameters"]
                if len(P_["phase_assemblage"]) != len(P_["phase_fractions"]) or [p_.name for p_ in P_["phase_assemblage"]] != phases:
                    msgs.append(f"{phases} {fracs} parsed to {[p_.name for p_ in P_['phase_assemblage']]} / {list(P_['phase_fractions'])}")
            except Exception as e:
                msgs.append(f"{phases} {fracs}: {type(e).__name__}")
    finally:
        os.chdir(cwd)
    return dict(ok=not msgs, messages=msgs)


def nat_config_history(rounds=2):
    """Real code: two configurations without an [output] table and with different assemblages, parsed one after the other in
    both orders, each give the documented defaults of their own assemblage."""
    import logging

    logging.disable(logging.CRITICAL)
    import pydrex.io as IO
    from pydrex import core

    tmp = tempfile.mkdtemp(prefix="pvcfg", dir=os.environ.get("VERIF_SCRATCH"))
    cwd = os.getcwd()
    os.chdir(tmp)
    msgs = []
    try:
        for pkeys in ((), ("phase_assemblage", "phase_fractions")) * rounds:
            try:
                m = _check_cfg(IO, core, tmp, pkeys, (), False)
            except Exception as e:
                m = [f"raised {type(e).__name__}: {str(e)[:100]}"]
            msgs += [f"parameters {list(pkeys)}: {x}" for x in m]
    finally:
        os.chdir(cwd)
    return dict(ok=not msgs, messages=msgs[:4])


def _sample(run):
    import logging

    logging.disable(logging.CRITICAL)
    IO = real_module("pydrex.io")
    core = real_module(MOD)
    rng = np.random.default_rng(run.seed)
    tmp = tempfile.mkdtemp(prefix="pvcfg", dir=os.environ.get("VERIF_SCRATCH"))
    cwd = os.getcwd()
    os.chdir(tmp)
    fails, ev = [], 0
    try:
        for it in range(40):
            pkeys = tuple(k for k in PARAM_OPTS if k not in ("phase_assemblage", "phase_fractions") and rng.random() < 0.5)
            if rng.random() < 0.5:
                pkeys = pkeys + ("phase_assemblage", "phase_fractions")
            okeys = tuple(k for k in OUT_OPTS if rng.random() < 0.5)
            ev += 1
            try:
                m = _check_cfg(IO, core, tmp, pkeys, okeys, with_output=bool(okeys) or rng.random() < 0.5)
            except Exception as e:
                m = [f"raised {type(e).__name__}: {str(e)[:80]}"]
            if m:
                fails.append(dict(case=f"{it}", checker="contracts.C19:nat_config", inputs=dict(pkeys=list(pkeys), okeys=list(okeys), with_output=True), what=f"{pkeys} {okeys}: {m[:2]}"))
    finally:
        os.chdir(cwd)
    return ev, fails[:3], ev
