"""C20 — coordinate conversions and pole-figure primitives are geometrically correct.

Proved (contracts on the real code): Cartesian -> spherical -> Cartesian round trip and the angle convention (A-TRIG),
pole extraction for all six reference-axes strings, and the Lambert projection of generic unit vectors with numpy.ma under
contract (A-NUMPY-MA: masked_where, mask propagation, domain masking, filled): squared radius 1 - |z|, closed unit disk,
azimuth, inverse lifting, the guarded poles.  point_density (kernels, mgrid, data-dependent clipping) is a bounded stand-in
only, and the check claims level `other`.
"""
import itertools

import numpy as np
import z3

from pv import engine as E
from pv import native
from pv import sym as S
from pv import trig
from pv.facets import prove_entries
from pv.sym import Sym, sym, symarr
from pv.util import real_module

MOD = "pydrex.geometry"


def run(run):
    run.assume("S-REAL", "S-PY", "S-NUMPY", "A-TRIG")
    run.level_override = "other"
    run.assume("A-NUMPY-MA")
    run.fork_map(_section, [("sph",), ("lambert",), ("density",), ("kernels",)] + [("poles", ra) for ra in ("xy", "xz", "yx", "yz", "zx", "zy", "XZ")])
    bounded(run)


def _section(run, item):
    try:
        if item[0] == "sph":
            spherical_facets(run)
        elif item[0] == "lambert":
            lambert_facets(run)
        elif item[0] == "density":
            density_glue(run)
        elif item[0] == "kernels":
            kernel_contracts(run)
        else:
            poles_facets(run, [item[1]])
    except E.UNSUPPORTED_EXC as e:
        run.undecided(str(item), MOD, f"unsupported construct: {e}")
    except (AttributeError, TypeError, KeyError, IndexError, ValueError) as e:
        run.undecided(str(item), MOD, f"not interpretable: {type(e).__name__}: {e}")
    finally:
        E.Ctx.cur = None


def spherical_facets(run):
    GM = real_module(MOD)
    g = E.rebind_module(GM)
    fs, fc = g.get("to_spherical"), g.get("to_cartesian")
    fn = f"{MOD}.to_spherical"
    x, y, z = sym("x"), sym("y"), sym("z")
    c = E.Ctx([z3.Or(x.z != 0, y.z != 0, z.z != 0)])
    E.Ctx.cur = c
    c.reset_path([])
    r, ph, th = fs(x, y, z)
    r0, ph0, th0 = r[0], ph[0], th[0]
    H = list(c.hyps) + list(c.pc)
    rp = _rp_sph(x, y, z)
    run.prove("to_spherical/r == sqrt(x^2+y^2+z^2)", fn, H, z3.And(S.zz(r0) >= 0, S.zz(r0) * S.zz(r0) == x.z * x.z + y.z * y.z + z.z * z.z), replay=rp)
    run.prove("to_spherical/r > 0 away from the origin", fn, H, S.zz(r0) > 0, replay=rp)
    for k, o in enumerate(c.oblig):
        run.prove(f"to_spherical/safety.{o.name}#{k}", fn, list(c.hyps) + list(o.pc) + [S.zz(r0) > 0], o.goal, replay=rp, kind="safety", detail=f"{o.meta.get('what', o.name)}")
    run.exact("to_spherical/longitude is atan2(y, x)", fn, isinstance(ph0, Sym) and z3.eq(ph0.z, S.ATAN2(y.z, x.z)), "second return value")
    u = z3.Real("u!")
    ok_th = isinstance(th0, Sym) and z3.is_app(th0.z) and th0.z.decl().name() == "ACOS"
    run.exact("to_spherical/colatitude is an arccos (so it lies in [0, pi])", fn, ok_th, "third return value is ACOS(.)")
    if ok_th:
        run.prove("to_spherical/cos(colatitude) == z / r", fn, H + [S.zz(r0) > 0], E.clear_formula(th0.z.arg(0) * S.zz(r0) == z.z), replay=rp)
    # round trip through the real to_cartesian
    n0 = len(c.oblig)
    xc, yc, zc = fc(ph0, th0, r0)
    terms = [S.zz(v[0]) for v in (xc, yc, zc)]
    ax = trig.axioms(terms)
    Hr = H + list(c.pc) + ax + [S.zz(r0) > 0]
    for nm, got, want in (("x", xc[0], x), ("y", yc[0], y), ("z", zc[0], z)):
        run.prove(f"to_cartesian(to_spherical(p)).{nm} == p.{nm} for every p != 0 (polar axis included)", fn, Hr, E.clear_formula(S.zz(got) == want.z), replay=rp, timeout=max(run.per_obl_timeout, 30))
    # the documented convention of to_cartesian itself
    phs, ths, rs = sym("phi"), sym("theta"), sym("rr")
    c.reset_path([])
    X, Y, Z = fc(phs, ths, rs)
    want = (rs.z * S.SIN(ths.z) * S.COS(phs.z), rs.z * S.SIN(ths.z) * S.SIN(phs.z), rs.z * S.COS(ths.z))
    run.prove("to_cartesian == (r sin(theta) cos(phi), r sin(theta) sin(phi), r cos(theta))", f"{MOD}.to_cartesian", list(c.hyps), z3.And(*[S.zz(a[0]) == b for a, b in zip((X, Y, Z), want)]), structural=True)
    run.canary("to_spherical/canary", fn, Hr, S.zz(xc[0]) == x.z + 1)
    E.Ctx.cur = None


# ----------------------------------------------------------------------------- Lambert projection (numpy.ma under contract)
class _MA:
    """numpy.ma model (A-NUMPY-MA), element-wise with decided masks: masked_where(c, a); arithmetic propagates the union of the
    masks; a / 0 and sqrt(negative) are masked (domain); filled() puts fill_value at masked places.  A masked element's data
    is never computed (so no division obligation arises there)."""

    __array_ufunc__ = None  # numpy defers binary operators to the reflected methods below
    __array_priority__ = 1000

    def __init__(s, vals, mask):
        s.vals, s.mask, s.fill_value = list(vals), list(mask), None

    @staticmethod
    def _lift(o, n):
        if isinstance(o, _MA):
            return o.vals, o.mask
        a = np.asarray(o, dtype=object)
        vals = list(a.flat) if a.ndim else [o] * n
        if len(vals) == 1 and n > 1:
            vals = vals * n
        return vals, [False] * n

    def _bin(s, o, f, swap=False, div=False):
        ov, om = _MA._lift(o, len(s.vals))
        vals, mask = [], []
        for a, ma_, b, mb in zip(s.vals, s.mask, ov, om):
            if swap:
                a, b = b, a
            m = bool(ma_ or mb)
            if not m and div and bool(S.ctx().decide(S.zz(b) == 0)):
                m = True  # domain: division by zero is masked
            mask.append(m)
            vals.append(None if m else f(a, b))
        return _MA(vals, mask)

    def __add__(s, o):
        return s._bin(o, lambda a, b: a + b)

    __radd__ = __add__

    def __sub__(s, o):
        return s._bin(o, lambda a, b: a - b)

    def __rsub__(s, o):
        return s._bin(o, lambda a, b: a - b, swap=True)

    def __mul__(s, o):
        return s._bin(o, lambda a, b: a * b)

    __rmul__ = __mul__

    def __truediv__(s, o):
        return s._bin(o, lambda a, b: a / b, div=True)

    def __rtruediv__(s, o):
        return s._bin(o, lambda a, b: a / b, swap=True, div=True)

    def __pow__(s, k):
        if k != 2:
            raise E.Unsupported("masked power other than 2")
        return _MA([None if m else v * v for v, m in zip(s.vals, s.mask)], s.mask)

    def sqrt(s):
        vals, mask = [], []
        for v, m in zip(s.vals, s.mask):
            if not m and bool(S.ctx().decide(S.zz(v) < 0)):
                m = True  # domain: sqrt of a negative number is masked
            mask.append(m)
            vals.append(None if m else S.s_sqrt(v))
        return _MA(vals, mask)

    def filled(s, fill_value=None):
        fv = s.fill_value if fill_value is None else fill_value
        out = np.empty(len(s.vals), dtype=object)
        for i, (v, m) in enumerate(zip(s.vals, s.mask)):
            out[i] = fv if m else v
        return out.view(S.SymArray)


def lambert_facets(run, n=2):
    """The real lambert_equal_area on n generic unit vectors, numpy.ma under contract: squared radius 1 - |z|, closed unit
    disk, azimuth unchanged (same direction in the plane), inverse of the disk-to-sphere lifting, element-wise independence;
    the x = y = 0 guard maps to the centre, where 1 - |z| <= 2e-32."""
    GM = real_module(MOD)
    fn = f"{MOD}.lambert_equal_area"
    P = [symarr(f"p{k}", (3,)) for k in range(n)]
    hy = [S.zz(p[0]) * S.zz(p[0]) + S.zz(p[1]) * S.zz(p[1]) + S.zz(p[2]) * S.zz(p[2]) == 1 for p in P]

    class MAStub:
        @staticmethod
        def masked_where(cond, a, copy=True):
            cs = list(np.asarray(cond, dtype=object).flat)
            vs = list(np.asarray(a, dtype=object).flat)
            return _MA(vs, [bool(S.ctx().decide(S.B(c))) for c in cs])

    class Shim(S.NPShim):
        def sqrt(self, x):
            if isinstance(x, _MA):
                return x.sqrt()
            return super().sqrt(x)

    def body():
        g = E.rebind_module(GM, np_shim=Shim(extra={"ma": MAStub}))
        cols = [np.array([P[k][i] for k in range(n)], dtype=object).view(S.SymArray) for i in range(3)]
        return g["lambert_equal_area"](*cols)

    ex = E.explore(body, hyps=hy, max_paths=64)
    run.paths += len(ex.paths)
    if not ex.complete or not ex.paths or ex.unsupported:
        run.undecided("lambert_equal_area", fn, "exploration incomplete: " + "; ".join(ex.unsupported[:2]))
        return
    seen = set()
    for pi, p in enumerate(ex.paths):
        H = list(ex.ctx.hyps) + list(p.pc)
        tag = f"lambert/path{pi}"
        if p.exc is not None:
            run.prove(f"{tag}/no exception for unit vectors", fn, H, z3.BoolVal(False), replay=_rp_lambert(P), detail=f"{type(p.exc).__name__}: {p.exc}")
            continue
        X, Y = (np.asarray(v, dtype=object) for v in p.value)
        if X.shape != (n,) or Y.shape != (n,):
            run.exact(f"{tag}/shape", fn, False, f"{X.shape} {Y.shape}")
            continue
        for k_, o in enumerate(p.oblig):
            run.prove(f"{tag}/safety.{o.name}#{k_}", fn, list(ex.ctx.hyps) + list(o.pc), o.goal, replay=_rp_lambert(P), kind="safety")
        for k in range(n):
            x, y, z = (S.zz(v) for v in P[k])
            Xk, Yk = S.zz(X[k]), S.zz(Y[k])
            absz = z3.If(z >= 0, z, -z)
            centre = z3.is_rational_value(z3.simplify(Xk)) and z3.is_rational_value(z3.simplify(Yk))
            rp = _rp_lambert(P)
            if centre:
                seen.add("centre")
                run.prove(f"{tag}/point{k}: the guarded pole maps to the centre and its squared radius 1 - |z| is below 2e-32", fn, H, z3.And(Xk == 0, Yk == 0, 1 - absz >= 0, 1 - absz <= S.R(2e-32)), replay=rp)
                continue
            seen.add("regular")
            r2 = Xk * Xk + Yk * Yk
            run.prove(f"{tag}/point{k}: squared radius == 1 - |z| (so the image lies in the closed unit disk)", fn, H, z3.And(E.clear_formula(r2 == 1 - absz), 1 - absz <= 1, 1 - absz >= 0), replay=rp)
            run.prove(f"{tag}/point{k}: azimuth unchanged (X y == Y x, X x >= 0, Y y >= 0)", fn, H, E.clear_formula(z3.And(Xk * y == Yk * x, Xk * x >= 0, Yk * y >= 0)), replay=rp)
            zl = 1 - r2
            run.prove(f"{tag}/point{k}: inverse of the disk-to-sphere lifting (1 - r^2 == |z|, X^2 (1 - z_l^2) == x^2 r^2, likewise Y)", fn, H,
                      E.clear_formula(z3.And(zl == absz, Xk * Xk * (1 - zl * zl) == x * x * r2, Yk * Yk * (1 - zl * zl) == y * y * r2)), replay=rp)
            others = {str(v) for q in range(n) if q != k for v in (S.zz(w) for w in P[q])}
            from contracts.updfacets import consts_of

            used = consts_of(Xk) | consts_of(Yk)
            run.exact(f"{tag}/point{k}: the image depends on that point only", fn, not (used & others), f"symbols of other points in the image: {sorted(used & others)}")
    run.exact("lambert: both the regular branch and the guarded-pole branch were explored", fn, seen == {"centre", "regular"}, f"{sorted(seen)} on {len(ex.paths)} paths")
    E.Ctx.cur = None


def density_glue(run, gridsteps=3, nd=2):
    """The real point_density over an abstract counting kernel (count_i = K(c_i) element-wise with K >= 0 uninterpreted, one
    positive scale), nd symbolic unit data, a symbolic scalar weight, a small concrete counting grid: the estimate at every grid
    point is max(T_i / mean(T), 0) with T_i = (w sum_d K(|d . c_i|) - 1/2) / scale (grid mean 1 before clipping, never
    negative), and it is unchanged when the data are reordered and any datum changes sign (axial data).  Precondition: the grid
    mean of the raw estimates is not zero.  Bounded in the grid size and in nd; the kernels themselves are decided below."""
    ST = real_module("pydrex.stats")
    fn = "pydrex.stats.point_density"
    K = z3.Function("K", z3.RealSort(), z3.RealSort())
    scale, w = sym("kscale"), sym("w")
    D = [symarr(f"d{k}", (3,)) for k in range(nd)]
    hy = [scale.z > 0, w.z > 0] + [S.zz(d[0]) * S.zz(d[0]) + S.zz(d[1]) * S.zz(d[1]) + S.zz(d[2]) * S.zz(d[2]) == 1 for d in D]
    calls = []

    def kstub(cos_dist, axial=True, **kw):
        arr = np.asarray(cos_dist, dtype=object)
        calls.append((arr.copy(), axial, kw))
        out = np.empty(arr.shape, dtype=object)
        for ix in np.ndindex(*arr.shape):
            out[ix] = Sym(K(S.zz(arr[ix])))
        return out.view(S.SymArray), scale

    g = E.rebind_module(ST)
    g["SPHERICAL_COUNTING_KERNELS"] = {"stub": kstub}
    f = g["point_density"]

    def cols(order, signs):
        return [np.array([signs[q] * D[k][i] for q, k in enumerate(order)], dtype=object).view(S.SymArray) for i in range(3)]

    def once(order, signs):
        c = E.Ctx(list(hy))
        E.Ctx.cur = c
        c.reset_path([])
        calls.clear()
        X, Y, Z = f(*cols(order, signs), gridsteps=gridsteps, weights=w, kernel="stub")
        return c, np.asarray(X, dtype=float), np.asarray(Y, dtype=float), np.asarray(Z, dtype=object), list(calls)

    c, X, Y, Z, cl = once(list(range(nd)), [1] * nd)
    ng = gridsteps * gridsteps
    ok_grid = X.shape == (gridsteps, gridsteps) == Y.shape and Z.shape == X.shape and bool(np.all(X ** 2 + Y ** 2 <= 1 + 1e-12)) and len(cl) == ng
    run.exact(f"point_density/grid: {ng} estimates reported on the projected counting grid, every grid point inside the closed unit disk, one kernel evaluation per grid point", fn, ok_grid, f"{X.shape}, max r^2 {float((X ** 2 + Y ** 2).max()):.3f}, {len(cl)} kernel calls")
    if not ok_grid:
        return
    # the kernel sees |d . c_i| for every datum (axial): expected raw estimates from the recorded arguments
    T = []
    for arr, axial, kw in cl:
        ok_ax = axial is True and not kw and arr.shape == (nd,)
        if not ok_ax:
            run.undecided("point_density/kernel arguments", fn, f"kernel called with axial={axial}, extra {kw}, shape {arr.shape}")
            return
        T.append((w.z * sum((K(S.zz(v)) for v in arr.flat), z3.RealVal(0)) - z3.RealVal("1/2")) / scale.z)
    mean = sum(T, z3.RealVal(0)) / ng
    H = list(c.hyps) + list(c.pc) + [mean != 0] + [K(S.zz(v)) >= 0 for arr, _, _ in cl for v in arr.flat]
    Zf = [S.zz(v) for v in Z.flat]
    for k_, o in enumerate(c.oblig):
        if o.name == "div_nonzero":
            run.prove(f"point_density/safety.{o.name}#{k_} (given a non-zero grid mean)", fn, H + list(o.pc), o.goal, structural=True, kind="safety")
    goals = []
    for i in range(ng):
        ti = T[i] / mean
        goals.append(Zf[i] == z3.If(ti < 0, 0, ti))
    run.prove("point_density/value: estimate_i == max(T_i / mean(T), 0), T_i = (w sum_d K(|d.c_i|) - 1/2) / scale  [grid mean 1 before clipping; never negative]", fn, H, E.clear_formula(z3.And(*goals)), structural=True)
    run.prove("point_density/normalised: the raw estimates divided by their grid mean have grid mean 1", fn, H, E.clear_formula(sum((t / mean for t in T), z3.RealVal(0)) == ng), structural=True)
    run.prove("point_density/non-negative everywhere", fn, H + [Zf[i] == z3.If(T[i] / mean < 0, 0, T[i] / mean) for i in range(ng)], z3.And(*[z >= 0 for z in Zf]), structural=True)
    # axial data: a reordered, sign-flipped run hands the kernel the same arguments (as a multiset) at every grid point
    order = list(range(nd))[::-1]
    c2, X2, Y2, Z2, cl2 = once(order, [-1] + [1] * (nd - 1))
    Z2f = [S.zz(v) for v in Z2.flat]
    if len(cl2) != ng or any(a2.shape != (nd,) or ax2 is not True or kw2 for a2, ax2, kw2 in cl2):
        run.undecided("point_density/axial data", fn, "kernel called differently in the second run")
        return
    arg_eq = [S.zz(cl2[i][0][q]) == S.zz(cl[i][0][order[q]]) for i in range(ng) for q in range(nd)]
    run.prove("point_density/axial data: after reordering the data and flipping the sign of a datum the kernel receives the same arguments |d . c_i| at every grid point", fn, list(c.hyps), z3.And(*arg_eq), structural=True)
    T2 = [(w.z * sum((K(S.zz(v)) for v in arr.flat), z3.RealVal(0)) - z3.RealVal("1/2")) / scale.z for arr, _, _ in cl2]
    run.prove("point_density/axial data: hence the same raw estimates T_i", fn, list(c.hyps) + arg_eq, z3.And(*[a == b for a, b in zip(T, T2)]), structural=True)
    mean2 = sum(T2, z3.RealVal(0)) / ng
    run.prove("point_density/axial data: the second run's estimates are the same function of its raw estimates", fn, list(c2.hyps) + list(c2.pc) + [mean2 != 0], E.clear_formula(z3.And(*[Z2f[i] == z3.If(T2[i] / mean2 < 0, 0, T2[i] / mean2) for i in range(ng)])), structural=True)
    run.exact("point_density/grid coordinates do not depend on the data", fn, bool(np.array_equal(X, X2) and np.array_equal(Y, Y2)), "")
    run.canary("point_density/canary", fn, H, Zf[0] == Zf[1] + 1)
    E.Ctx.cur = None


def kernel_contracts(run):
    """What density_glue assumes of a counting kernel, decided on each of the five real kernels for n = 2, 3 symbolic cosine
    distances in [0, 1] (both `axial` settings): the summed count is an element-wise sum (unchanged under a permutation of the
    data, every element's contribution non-negative and finite), the scale is a positive constant that depends on the number
    of data only."""
    ST = real_module("pydrex.stats")
    g = E.rebind_module(ST)
    kernels = g.get("SPHERICAL_COUNTING_KERNELS")
    if not isinstance(kernels, dict) or not kernels:
        run.undecided("kernels", "pydrex.stats", "SPHERICAL_COUNTING_KERNELS not found")
        return
    for name in kernels:
        kf = g.get(name, kernels[name])
        fn = f"pydrex.stats.{name}"
        for n in (2, 3):
            for axial in (True, False):
                cs = symarr("c", (n,))
                hy = [z3.And(S.zz(v) >= (0 if axial else -1), S.zz(v) <= 1) for v in cs]
                # the Kamb radius of the non-axial variants is positive only for n > sigma^2 (see the known finding): sigma = 1 there
                kw = {} if (axial or name == "schmidt_count") else {"σ": 1}
                tag = f"{name}[n={n}, axial={axial}{', sigma=1' if kw else ''}]"

                def total(order):
                    c = E.Ctx(list(hy))
                    E.Ctx.cur = c
                    c.reset_path([])
                    arr = np.array([cs[k] for k in order], dtype=object).view(S.SymArray)
                    count, scale = kf(arr, axial=axial, **kw)
                    return c, count.sum(), scale

                try:
                    c1, t1, sc1 = total(list(range(n)))
                    c2, t2, sc2 = total(list(range(n))[::-1] if n == 2 else [1, 2, 0])
                except S.NonFinite as e:
                    run.exact(f"{tag}: count and scale are finite", fn, False, str(e))
                    continue
                terms = [S.zz(t1), S.zz(t2), S.zz(sc1), S.zz(sc2)]
                H = list(c1.hyps) + list(c1.pc) + list(c2.pc) + E.atoms_axioms(terms)
                run.prove(f"{tag}: the summed count does not depend on the order of the data", fn, H, E.clear_formula(S.zz(t1) == S.zz(t2)), structural=True)
                run.prove(f"{tag}: the summed count is non-negative", fn, H, S.zz(t1) >= 0, structural=True)
                from contracts.updfacets import consts_of

                dep = {nm for nm in consts_of(S.zz(sc1)) if nm.startswith("c_")}
                run.prove(f"{tag}: the scale is positive and the same for every ordering", fn, H, z3.And(S.zz(sc1) > 0, S.zz(sc1) == S.zz(sc2)), structural=True)
                run.exact(f"{tag}: the scale depends on the number of data only", fn, not dep, f"data symbols in the scale: {sorted(dep)}")
                for k_, o in enumerate(list(c1.oblig) + list(c2.oblig)):
                    run.prove(f"{tag}/safety.{o.name}#{k_}", fn, list(c1.hyps) + list(o.pc), o.goal, structural=True, kind="safety")
    # the scale over the whole range of data counts, on the real helpers (concrete arithmetic): positive and finite
    bad, badc = {}, {}
    for name in kernels:
        for axial in (True, False):
            for n in list(range(1, 301)) + [1000, 10 ** 5]:
                try:
                    with np.errstate(all="ignore"):
                        cnt_, sc = ST.SPHERICAL_COUNTING_KERNELS[name](np.linspace(0.0, 1.0, n) if n > 1 else np.array([0.5]), axial=axial)
                    ok = bool(np.isfinite(sc) and sc > 0)
                    okc = bool(np.all(np.isfinite(cnt_)) and np.all(np.asarray(cnt_) >= 0))
                except Exception:
                    ok = okc = False
                if not ok:
                    bad.setdefault((name, axial), []).append(n)
                if not okc:
                    badc.setdefault((name, axial), []).append(n)
    # the counts themselves over the range of data counts and smoothing parameters (floating-point range: no overflow)
    for name in kernels:
        msgs = list(f"axial={ax}: n in {v[0]}..{v[-1]}" for (nm, ax), v in badc.items() if nm == name)
        if name != "schmidt_count":
            for sg in (1, 2, 3, 20, 50):
                for n in (150, 3000, 40000, 10 ** 6):
                    try:
                        with np.errstate(all="ignore"):
                            cnt_, sc = ST.SPHERICAL_COUNTING_KERNELS[name](np.linspace(0.0, 1.0, n), σ=sg, axial=True)
                        if not (np.all(np.isfinite(cnt_)) and np.all(np.asarray(cnt_) >= 0) and np.isfinite(sc) and sc > 0):
                            msgs.append(f"sigma={sg}, n={n}")
                    except Exception as e:
                        msgs.append(f"sigma={sg}, n={n}: {type(e).__name__}")
        run.exact(f"{name}: counts are finite and non-negative for 1..300, 1000, 100000 data (default smoothing) and for sigma in 1..50 with up to 10^6 axial data (no overflow)", f"pydrex.stats.{name}", not msgs, "; ".join(msgs[:4]),
                  info=None if not msgs else dict(checker="contracts.C20:nat_kernel_range", inputs=dict(kernel=name)))
    for name in kernels:
        for axial in (True, False):
            b = bad.get((name, axial), [])
            # non-axial Kamb kernels need n > sigma^2 = 100 (recorded finding): that range is its own obligation, so that a
            # failure anywhere else is still reported
            parts = [("1..300, 1000, 100000", lambda n_: True)] if axial else [("1..100 (n <= sigma^2)", lambda n_: n_ <= 100), ("101..300, 1000, 100000 (n > sigma^2)", lambda n_: n_ > 100)]
            for lab, sel in parts:
                bb = [n_ for n_ in b if sel(n_)]
                run.exact(f"{name}[axial={axial}]: the scale is a positive finite number for every number of data {lab} (default smoothing)", f"pydrex.stats.{name}", not bb,
                          f"not positive/finite for n in {bb[0]}..{bb[-1]} ({len(bb)} values)" if bb else "",
                          info=None if not bb else dict(checker="contracts.C20:nat_density_nonaxial", inputs=dict(kernel=name, n=int(bb[len(bb) // 2]), axial=axial)))
    E.Ctx.cur = None


def nat_kernel_range(kernel):
    from pydrex import stats as st

    msgs = []
    for sg in (1, 2, 3, 10, 20, 50):
        for n in (150, 3000, 40000, 10 ** 6):
            with np.errstate(all="ignore"):
                cnt_, sc = st.SPHERICAL_COUNTING_KERNELS[kernel](np.linspace(0.0, 1.0, n), axial=True, **({} if kernel == "schmidt_count" else {"σ": sg}))
            if not (np.all(np.isfinite(cnt_)) and np.isfinite(sc) and sc > 0):
                msgs.append(f"sigma={sg}, n={n}: counts or scale not finite")
    return dict(ok=not msgs, what="; ".join(msgs[:4]))


def nat_density_nonaxial(kernel, n, axial):
    import warnings

    warnings.simplefilter("ignore")
    from pydrex import stats as st
    from scipy.spatial.transform import Rotation as R

    data = R.random(n, random_state=1).apply([0, 0, 1.0])
    X, Y, Z = st.point_density(data[:, 0], data[:, 1], data[:, 2], gridsteps=11, kernel=kernel, axial=axial)
    ok = bool(np.all(np.isfinite(Z)) and Z.min() >= 0)
    return dict(ok=ok, what="" if ok else f"point_density(kernel={kernel!r}, axial={axial}) of {n} data is not finite: the Kamb radius 1 - 2 sigma^2/(n + sigma^2) is <= 0 for n <= sigma^2")


def _rp_lambert(P):
    def replay(model):
        pts = [[E.model_value(model, S.zz(v)) for v in p] for p in P]
        res = native.call("contracts.C20", "nat_lambert", dict(pts=pts))
        return (not res["ok"]), dict(checker="contracts.C20:nat_lambert", inputs=dict(pts=pts), observed=res, what=res.get("what", ""))

    return replay


def nat_lambert(pts):
    import pydrex.geometry as g

    v = np.array(pts, float)
    nrm = np.linalg.norm(v, axis=1)
    v = v / np.where(nrm > 0, nrm, 1)[:, None]
    try:
        X, Y = g.lambert_equal_area(v[:, 0], v[:, 1], v[:, 2])
    except Exception as e:
        return dict(ok=False, what=f"raised {type(e).__name__}: {e}")
    r2 = X ** 2 + Y ** 2
    msgs = []
    if not (np.all(np.isfinite(X)) and np.all(np.isfinite(Y))):
        msgs.append("not finite")
    elif not np.allclose(r2, 1 - np.abs(v[:, 2]), atol=1e-12):
        msgs.append(f"squared radius {r2.tolist()} != 1 - |z| {(1 - np.abs(v[:, 2])).tolist()}")
    elif np.abs(X * v[:, 1] - Y * v[:, 0]).max() > 1e-12 or (X * v[:, 0]).min() < -1e-15 or (Y * v[:, 1]).min() < -1e-15:
        msgs.append("azimuth changed")
    return dict(ok=not msgs, what="; ".join(msgs), X=np.asarray(X).tolist(), Y=np.asarray(Y).tolist())


def _rp_sph(x, y, z):
    def replay(model):
        p = [E.model_value(model, v.z) for v in (x, y, z)]
        if not any(p):
            p = [0.0, 0.0, 1.0]
        res = native.call("contracts.C20", "nat_sph", dict(p=p))
        return (not res["ok"]), dict(checker="contracts.C20:nat_sph", inputs=dict(p=p), observed=res, what="to_cartesian(to_spherical(p)) != p or wrong angle convention")

    return replay


def nat_sph(p):
    import pydrex.geometry as g

    p = np.array(p, float)
    r, ph, th = g.to_spherical(*p)
    q = np.array([v[0] for v in g.to_cartesian(ph, th, r)])
    ok = bool(np.allclose(q, p, atol=1e-12 * max(1, np.abs(p).max()))) and bool(np.isclose(r[0], np.linalg.norm(p))) and bool(0 <= th[0] <= np.pi) and bool(np.isclose(np.cos(th[0]), p[2] / np.linalg.norm(p), atol=1e-12))
    return dict(ok=ok, spherical=[float(r[0]), float(ph[0]), float(th[0])], back=q.tolist())


def poles_facets(run, which):
    GM = real_module(MOD)
    fn = f"{MOD}.poles"

    class LAStub:
        @staticmethod
        def norm(a, axis=None):
            if axis != 1:
                raise E.Unsupported("norm with axis != 1")
            a = np.asarray(a, dtype=object)
            return S.SymArray(np.array([S.s_sqrt(S._sum(S.ew(lambda t: t * t, a[k]))) for k in range(a.shape[0])], dtype=object))

    N = 2
    O = symarr("A", (N, 3, 3))
    hkl = symarr("h", (3,))
    axes_map = {"x": 0, "y": 1, "z": 2}
    for ra in which:
        g = dict(GM.__dict__)

        class Shim(S.NPShim):
            def tensordot(self, a, b, axes=2):
                a = np.asarray(a, dtype=object).view(np.ndarray)
                b = np.asarray(b, dtype=object).view(np.ndarray)
                return S._rewrap(np.tensordot(a, b, axes=axes))

        g.update(np=Shim(), la=LAStub)
        f = E.rebind_function(GM.poles, g)
        # contract: directions d_g = A_g^T hkl, non-zero
        nz, d = [], []
        for k in range(N):
            dk = S._matmul(O[k].T, hkl)
            d.append(dk)
            nz.append(S.zz(S._sum(S.ew(lambda t: t * t, dk))) > 0)
        ex = E.explore(lambda: f(O.copy(), ra, hkl), hyps=nz, max_paths=64)
        run.paths += len(ex.paths)
        if not ex.complete or not ex.paths or ex.unsupported:
            run.undecided(f"poles[{ra}]", fn, "exploration incomplete: " + "; ".join(ex.unsupported[:2]))
            continue
        rp = _rp_poles(ra, O, hkl)
        low = ra.lower()
        up = (set("xyz") - set(low)).pop()
        for pi, p in enumerate(ex.paths):
            tag = f"poles[{ra}]" if len(ex.paths) == 1 else f"poles[{ra}]/path{pi}"
            H = list(ex.ctx.hyps) + list(p.pc)
            if p.exc is not None:
                run.prove(f"{tag}/no exception for a non-zero direction", fn, H, z3.BoolVal(False), replay=rp, detail=f"{type(p.exc).__name__}: {p.exc}")
                continue
            xs, ys, zs = p.value
            for k, o in enumerate(p.oblig):
                run.prove(f"{tag}/safety.{o.name}#{k}", fn, list(ex.ctx.hyps) + list(o.pc), o.goal, structural=True, kind="safety")
            goals = []
            for k in range(N):
                out = {low[0]: xs[k], low[1]: ys[k], up: zs[k]}
                nrm2 = S._sum(S.ew(lambda t: t * t, S.SymArray(np.array([xs[k], ys[k], zs[k]], dtype=object))))
                goals.append(E.clear_formula(S.zz(nrm2) == 1))
                # parallel to d with a positive factor: out_axis * |d| == d_axis
                for ax_ in "xyz":
                    comp = out[ax_]
                    others = [a for a in "xyz" if a != ax_]
                    for ob in others:
                        goals.append(E.clear_formula(S.zz(comp) * S.zz(d[k][axes_map[ob]]) == S.zz(out[ob]) * S.zz(d[k][axes_map[ax_]])))
                dot = out["x"] * d[k][0] + out["y"] * d[k][1] + out["z"] * d[k][2]
                goals.append(E.clear_formula(S.zz(dot) > 0))
            run.prove(f"{tag}/unit vectors A^T hkl/|.| returned as (component {low[0]}, component {low[1]}, component {up})", fn, H, z3.And(*goals), replay=rp, timeout=max(run.per_obl_timeout, 30))
        E.Ctx.cur = None


def _rp_poles(ra, O, hkl):
    def replay(model):
        kw = dict(O=E.model_array(model, O).tolist(), hkl=E.model_array(model, hkl).tolist(), ra=ra)
        res = native.call("contracts.C20", "nat_poles", kw)
        return (not res["ok"]), dict(checker="contracts.C20:nat_poles", inputs=kw, observed=res, what=res.get("what", ""))

    return replay


def nat_poles(O, hkl, ra):
    import pydrex.geometry as g

    O, hkl = np.array(O, float), np.array(hkl, float)
    d = np.einsum("gji,j->gi", O, hkl)
    nrm = np.linalg.norm(d, axis=1)
    if np.any(nrm == 0):
        return dict(ok=True, what="degenerate direction (outside the contract)")
    d = d / nrm[:, None]
    amap = {"x": 0, "y": 1, "z": 2}
    low = ra.lower()
    up = (set("xyz") - set(low)).pop()
    try:
        xs, ys, zs = g.poles(O.copy(), ra, hkl)
    except Exception as e:
        return dict(ok=False, what=f"raised {type(e).__name__}: {e}")
    ok = bool(np.allclose(xs, d[:, amap[low[0]]], atol=1e-9) and np.allclose(ys, d[:, amap[low[1]]], atol=1e-9) and np.allclose(zs, d[:, amap[up]], atol=1e-9))
    return dict(ok=ok, what="" if ok else f"poles(hkl={hkl.tolist()}, ref_axes={ra!r}) is not A^T hkl / |A^T hkl| with the requested component order")


def bounded(run):
    cnt = 160 if run.tier == "quick" else 2000 * run.tmul
    jobs = [dict(seed=run.seed * 23 + k, count=cnt // 8) for k in range(8)]
    res, errs = native.pmap("contracts.C20", "nat_sweep", jobs)
    run.worker_errors(errs, len(jobs))
    ev = sum(r["evaluations"] for r in res if r and "_error" not in r)
    fails = [f for r in res if r and "_error" not in r for f in r["failures"]]
    for f in [f for f in fails if f.get("known")]:
        kf = [k for k in run.known if k.get("bounded") == f["known"]]
        if kf:
            run.known_hits.append((kf[0], f["what"][:160]))
            fails.remove(f)
    run.bounded_result("real geometry/stats functions: spherical round trip (axes and poles of the sphere included), poles for the six reference-axes strings, Lambert projection (radius, azimuth, inverse lifting, sphere poles), point density (5 kernels: finite, >= 0, grid mean 1 before clipping, in the unit disk, order and sign independence)",
                       MOD, f"{ev} generated cases", ev, fails, ev)


def nat_sweep(seed, count):
    import pydrex.geometry as g
    import pydrex.stats as st
    from scipy.spatial.transform import Rotation as R

    rng = np.random.default_rng(seed)
    fails, ev = [], 0
    special = [np.array(v, float) for v in ([1, 0, 0], [0, 1, 0], [0, 0, 1], [0, 0, -1], [-1, 0, 0], [0, -1, 0], [1, 1, 0], [0, -2, 2], [1e-9, 0, 1])]
    for it in range(count):
        ev += 1
        msgs = []
        known = None
        try:
            p = special[it % len(special)] if it < 2 * len(special) else rng.normal(size=3) * 10 ** rng.uniform(-3, 3)
            r, ph, th = g.to_spherical(*p)
            q = np.array([v[0] for v in g.to_cartesian(ph, th, r)])
            # arccos loses half of the significant digits next to the polar axis (sin(theta) ~ sqrt(2(1-cos(theta)))): sqrt(eps) accuracy
            if not np.allclose(q, p, atol=3e-8 * max(1e-300, np.linalg.norm(p)), rtol=0):
                msgs.append(f"spherical round trip of {p.tolist()} gives {q.tolist()}")
            if not (0 <= th[0] <= np.pi and np.isclose(np.cos(th[0]), p[2] / np.linalg.norm(p), atol=1e-12)) or not np.isclose(np.arctan2(np.sin(ph[0]), np.cos(ph[0])), np.arctan2(p[1], p[0]) if (p[0] or p[1]) else np.arctan2(np.sin(ph[0]), np.cos(ph[0])), atol=1e-12):
                msgs.append("angle convention (colatitude from +z, longitude from +x) violated")
            # poles
            n = int(rng.choice([1, 3, 20]))
            O = R.random(n, random_state=int(rng.integers(1 << 30))).as_matrix().reshape(n, 3, 3)
            hkl = [[1, 0, 0], [0, 1, 0], [0, 0, 1], [1, 1, 0], [1, 2, 3], [-1, 0, 0], [0, 0, -2], [0, -1, 0], [1, -1, 0], [0, 0.5, 0]][it % 10]
            d = np.einsum("gji,j->gi", O, np.array(hkl, float))
            d /= np.linalg.norm(d, axis=1)[:, None]
            amap = {"x": 0, "y": 1, "z": 2}
            for ra in ("xy", "xz", "yx", "yz", "zx", "zy"):
                xs, ys, zs = g.poles(O.copy(), ra, hkl)
                up = (set("xyz") - set(ra)).pop()
                if not (np.allclose(xs, d[:, amap[ra[0]]]) and np.allclose(ys, d[:, amap[ra[1]]]) and np.allclose(zs, d[:, amap[up]])):
                    msgs.append(f"poles: wrong components for ref_axes='{ra}'")
                    break
            # Lambert
            m = 50
            v = rng.normal(size=(m, 3)); v /= np.linalg.norm(v, axis=1)[:, None]
            v[0] = [0, 0, 1]; v[1] = [0, 0, -1]; v[2] = [1, 0, 0]; v[3] = [0, -1, 0]
            X, Y = g.lambert_equal_area(v[:, 0], v[:, 1], v[:, 2])
            if not (np.all(np.isfinite(X)) and np.all(np.isfinite(Y))):
                msgs.append("Lambert projection not finite")
            else:
                r2 = X ** 2 + Y ** 2
                if not np.allclose(r2, 1 - np.abs(v[:, 2]), atol=1e-12) or r2.max() > 1 + 1e-12:
                    msgs.append("Lambert: squared radius != 1 - |z|")
                cross = X * v[:, 1] - Y * v[:, 0]
                dotp = X * v[:, 0] + Y * v[:, 1]
                if np.abs(cross).max() > 1e-12 or dotp.min() < -1e-15:
                    msgs.append("Lambert: azimuth changed")
                if abs(X[0]) + abs(Y[0]) + abs(X[1]) + abs(Y[1]) > 1e-12:
                    msgs.append("Lambert: sphere poles not mapped to the centre")
                # inverse lifting: (X, Y) -> (x, y, |z|)
                rr = np.sqrt(r2)
                zl = 1 - r2
                fac = np.sqrt(np.clip(1 - zl ** 2, 0, None)) / np.where(rr > 0, rr, 1)
                if not (np.allclose(X * fac, v[:, 0], atol=1e-9) and np.allclose(Y * fac, v[:, 1], atol=1e-9) and np.allclose(zl, np.abs(v[:, 2]), atol=1e-12)):
                    msgs.append("Lambert does not invert the disk-to-sphere lifting")
            # point density
            if it % 5 == 0:
                kern = list(st.SPHERICAL_COUNTING_KERNELS)[(it // 5) % 5]
                nd = int(rng.choice([5, 60, 400]))
                base = R.random(random_state=int(rng.integers(1 << 30)))
                data = (R.from_rotvec(rng.choice([0.1, 0.5, 3.0]) * rng.normal(size=(nd, 3))) * base).apply([0, 0, 1.0])
                gs = int(rng.choice([11, 21]))
                w = float(rng.choice([1.0, 2.5]))
                # raw estimates recomputed through the public kernels (for the "grid mean 1 before clipping" clause)
                lam_, h_ = np.mgrid[-np.pi:np.pi:gs * 1j, -1:1:gs * 1j]
                xc, yc, zc = g.to_cartesian(np.pi / 2 - lam_.ravel(), np.pi / 2 - np.arcsin(h_).ravel())
                raw = np.empty(xc.size)
                for i_, cn in enumerate(np.column_stack([xc, yc, zc])):
                    pr = np.abs(data @ cn)
                    dens, scale = st.SPHERICAL_COUNTING_KERNELS[kern](pr, axial=True)
                    raw[i_] = ((dens * w).sum() - 0.5) / scale
                Xg, Yg, Zg = st.point_density(data[:, 0], data[:, 1], data[:, 2], gridsteps=gs, weights=w, kernel=kern)
                if kern == "schmidt_count" and not np.any(raw) and np.all(np.isnan(Zg)):
                    # recorded finding (input class): no datum inside the 1% cap of any grid point -> all raw estimates 0 -> 0/0
                    fails.append(dict(case=f"{seed}.{it}", checker="contracts.C20:nat_case", inputs=dict(seed=int(seed), it=it, count=count), known="density-zero-grid-mean",
                                      what=f"point_density[schmidt_count]: {nd} data on a {gs}x{gs} grid: every raw estimate is 0, the grid mean is 0 and all estimates are NaN"))
                    continue
                if not (np.all(np.isfinite(Zg)) and Zg.min() >= 0):
                    msgs.append(f"point_density[{kern}]: not finite / negative")
                if (Xg ** 2 + Yg ** 2).max() > 1 + 1e-12:
                    msgs.append(f"point_density[{kern}]: grid point outside the unit disk")
                # the returned arrays are the caller's: scaling them in place must not affect later calls
                Xk, Yk, Zk = Xg.copy(), Yg.copy(), Zg.copy()
                Xg *= 2.0; Yg -= 3.0; Zg[:] = -1.0
                Xn, Yn, Zn = st.point_density(data[:, 0], data[:, 1], data[:, 2], gridsteps=gs, weights=w, kernel=kern)
                if not (np.array_equal(Xn, Xk) and np.array_equal(Yn, Yk) and np.array_equal(Zn, Zk, equal_nan=True)):
                    msgs.append(f"point_density[{kern}]: a later call returns different grids / estimates after the caller modified the earlier result in place (shared arrays)")
                Xg, Yg, Zg = Xk, Yk, Zk
                want = raw / raw.mean()
                want[want < 0] = 0
                if not np.allclose(Zg.ravel(), want, rtol=1e-9, atol=1e-12):
                    msgs.append(f"point_density[{kern}]: not normalised to grid mean 1 before clipping negative estimates")
                perm = rng.permutation(nd)
                sg = rng.choice([-1.0, 1.0], size=nd)
                _, _, Z2 = st.point_density(data[perm, 0] * sg, data[perm, 1] * sg, data[perm, 2] * sg, gridsteps=gs, weights=w, kernel=kern)
                if not np.allclose(Z2, Zg, rtol=1e-9, atol=1e-10):
                    msgs.append(f"point_density[{kern}]: depends on data order or on the sign of axial data")
                # polar (non-axial) data: finite, non-negative, order-independent; the Kamb kernels need n > sigma^2 = 100 there
                # (recorded finding for n <= sigma^2, decided exactly in kernel_contracts), so they get 150-400 data
                nd_p = nd if kern in ("schmidt_count", "exponential_kamb") else int(rng.choice([150, 400]))
                dp = (R.from_rotvec(0.5 * rng.normal(size=(nd_p, 3))) * base).apply([0, 0, 1.0])
                _, _, Zp = st.point_density(dp[:, 0], dp[:, 1], dp[:, 2], gridsteps=gs, weights=w, kernel=kern, axial=False)
                pp = rng.permutation(nd_p)
                _, _, Zp2 = st.point_density(dp[pp, 0], dp[pp, 1], dp[pp, 2], gridsteps=gs, weights=w, kernel=kern, axial=False)
                if not (np.all(np.isfinite(Zp)) and Zp.min() >= 0):
                    msgs.append(f"point_density[{kern}, axial=False, {nd_p} data]: not finite / negative")
                elif not np.allclose(Zp, Zp2, rtol=1e-9, atol=1e-10):
                    msgs.append(f"point_density[{kern}, axial=False]: depends on data order")
        except Exception as e:
            import traceback

            msgs.append(f"raised {type(e).__name__}: {e} @ {traceback.format_exc().splitlines()[-3].strip()[:80]}")
        if msgs:
            fails.append(dict(case=f"{seed}.{it}", checker="contracts.C20:nat_case", inputs=dict(seed=int(seed), it=it, count=count), what="; ".join(msgs[:3])))
    return dict(evaluations=ev, failures=fails[:5])


def nat_case(seed, it, count):
    r = nat_sweep(seed, count)
    hit = [f for f in r["failures"] if f["case"] == f"{seed}.{it}"]
    return dict(ok=not hit, failures=hit)
