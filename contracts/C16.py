"""C16 — SCSV save/read round trip is lossless; invalid schemas and data are refused.

Losslessness is a statement about yaml.safe_load, csv and Python's str/int/float/complex conversions (A-CODEC): no contract
within reach decides it (z3/cvc5 string theories leave int(s)/float(s) decode clauses open).  What is decided exactly: the
decision table of _validate_scsv_schema over every single-fault corruption class, the boolean codec, the missing/fill branch
structure of the cell parser (finite enumerations on the real functions).  The round trip itself is a bounded stand-in and the
check claims level `other`.
"""
import itertools
import math

import numpy as np

from pv import native
from pv.util import real_module

MOD = "pydrex.io"


def run(run):
    run.assume("S-PY", "A-CODEC")
    run.level_override = "other"
    decision_table(run)
    cell_codec(run)
    header_codec(run)
    bounded(run)


def _base():
    return {"delimiter": ",", "missing": "-", "fields": [{"name": "a", "type": "integer", "fill": "0"}, {"name": "b", "type": "string"}, {"name": "c", "type": "float", "fill": "NaN"}]}


def decision_table(run):
    IO = real_module(MOD)
    import logging

    logging.disable(logging.CRITICAL)
    fn = f"{MOD}._validate_scsv_schema"
    v = IO._validate_scsv_schema
    import copy

    run.exact("_validate_scsv_schema: the reference schema is valid", fn, v(_base()) is True, "")
    faults = {}
    for key in ("delimiter", "missing", "fields"):
        s = _base(); del s[key]; faults[f"missing key '{key}'"] = s
    s = _base(); s["fields"] = []; faults["no fields"] = s
    s = _base(); s["missing"] = ","; faults["delimiter equal to the missing marker"] = s
    s = _base(); s["missing"] = "n,a"; faults["delimiter contained in the missing marker"] = s
    for bad in ("1a", "a b", "a-b", "", "é!"):
        s = _base(); s["fields"][1]["name"] = bad; faults[f"non-identifier field name {bad!r}"] = s
    for t in ("integer", "float", "complex"):
        s = _base(); s["fields"][0] = {"name": "a", "type": t}; faults[f"{t} field without fill"] = s
    s = _base(); s["fields"][0]["type"] = "int32"; faults["unsupported field type"] = s
    ok = True
    bad = []
    for lab, sch in faults.items():
        try:
            r = v(sch)
        except Exception as e:
            r = f"raised {type(e).__name__}"
        if r is not False:
            ok = False
            bad.append((lab, r))
    run.exact(f"_validate_scsv_schema: every single-fault corruption class is rejected [{len(faults)} classes, exhaustive]", fn, ok, f"accepted: {bad}" if bad else "all rejected",
              info=None if ok else dict(checker="contracts.C16:nat_roundtrip_case", inputs=dict(seed=0, it=0, count=1)))
    # history: the validator has no memory -- a schema object it has accepted and that is then corrupted in place is rejected
    def _mut_name(s): s["fields"][1]["name"] = "a b"
    def _mut_type(s): s["fields"][0]["type"] = "int32"
    def _mut_fill(s): s["fields"][0].pop("fill", None); s["fields"][0]["type"] = "integer"
    def _mut_marker(s): s["missing"] = s["delimiter"]
    def _mut_nofields(s): del s["fields"][:]
    badh = []
    for mut in (_mut_name, _mut_type, _mut_fill, _mut_marker, _mut_nofields):
        sch = _base()
        try:
            first = v(sch); v(sch); mut(sch); r = v(sch)
        except Exception as e:
            first, r = True, f"raised {type(e).__name__}"
        if first is not True or r is not False:
            badh.append((mut.__name__[5:], first, r))
    run.exact("_validate_scsv_schema: a schema object accepted earlier and then corrupted in place is rejected (no memory of earlier verdicts) [5 in-place corruptions]", fn, not badh, f"accepted: {badh}" if badh else "all rejected",
              info=None if not badh else dict(checker="contracts.C16:nat_roundtrip_case", inputs=dict(seed=0, it=0, count=1)))
    # valid variations are accepted
    okv = True
    for t in ("string", "boolean"):
        s = _base(); s["fields"][1] = {"name": "b", "type": t}; okv = okv and v(s) is True
    s = _base(); s["fields"][1] = {"name": "b"}; okv = okv and v(s) is True
    for d, m in ((";", "-"), ("\t", "NA"), ("|", ""), (",", "missing")):
        s = _base(); s["delimiter"], s["missing"] = d, m; okv = okv and v(s) is True
    run.exact("_validate_scsv_schema: valid variations (string/boolean/untyped fields without fill, other delimiters and markers) are accepted", fn, okv, "")
    # the three entry points refuse an invalid schema with SCSVError
    import io as _io
    import tempfile, os

    err = real_module("pydrex.exceptions").SCSVError
    okr = True
    for lab, sch in list(faults.items())[:6]:
        try:
            IO.write_scsv_header(_io.StringIO(), sch)
            okr = False
        except err:
            pass
        except Exception:
            okr = False
    run.exact("write_scsv_header refuses invalid schemas with SCSVError", f"{MOD}.write_scsv_header", okr, "")


def cell_codec(run):
    IO = real_module(MOD)
    fn = f"{MOD}._parse_scsv_cell"
    b = IO._parse_scsv_bool
    truthy = ("yes", "true", "t", "1", "YES", "True", "T", "tRuE")
    falsy = ("no", "false", "f", "0", "", "2", "y", "on", "None")
    run.exact("_parse_scsv_bool: exactly yes/true/t/1 (case-insensitive) are true", f"{MOD}._parse_scsv_bool", all(b(x) is True for x in truthy) and all(b(x) is False for x in falsy) and b(True) is True and b(False) is False, "")
    _p = IO._parse_scsv_cell
    raised = []

    def p(func, data, missingstr=None, fillval=None):
        try:
            return _p(func, data, missingstr=missingstr, fillval=fillval)
        except Exception as e:  # the code under contract raised on a valid cell: that refutes the table entry
            raised.append(f"({func.__name__}, {data!r}, marker {missingstr!r}, fill {fillval!r}) raised {type(e).__name__}")
            return raised

    ok = True
    for func, fill, typed in ((int, "7", 7), (float, "1.5", 1.5), (str, "N/A", "N/A"), (str, "", ""), (complex, "1+2j", 1 + 2j), (int, 0, 0), (float, 0.0, 0.0), (complex, 0j, 0j), (int, -3, -3)):
        for miss in ("-", "", "NA"):
            for pad in ("", " ", "  "):
                ok = ok and p(func, pad + miss + pad, missingstr=miss, fillval=fill) == typed
    ok = ok and math.isnan(p(float, "-", missingstr="-", fillval="NaN")) and isinstance(p(complex, "-", missingstr="-", fillval="NaN"), complex)
    ok = ok and p(int, " 42 ", missingstr="-", fillval="0") == 42 and p(float, "inf", missingstr="-", fillval="0") == float("inf") and p(str, " x y ", missingstr="-", fillval="") == "x y"
    ok = ok and p(bool, "True", missingstr="-", fillval="") is True and p(bool, "False", missingstr="-", fillval="") is False
    run.exact("_parse_scsv_cell: marker -> typed fill (NaN for a 'NaN' fill), booleans through the boolean codec, otherwise the stripped token through the type", fn, bool(ok) and not raised,
              "; ".join(raised[:3]) or "finite table over types x markers (incl. the empty marker) x padding x string/typed fills")
    bad = True
    for func, tok in ((int, "1.5"), (int, "x"), (float, "1,5"), (complex, "1+2i")):
        try:
            _p(func, tok, missingstr="-", fillval="0")
            bad = False
        except ValueError:
            pass
    run.exact("_parse_scsv_cell: an unparseable token raises ValueError (turned into SCSVError by save_scsv)", fn, bad, "")


def header_codec(run):
    """write_scsv_header / the YAML loader as a codec of the schema: the header written for a valid schema loads back (through the
    loader read_scsv uses) to a schema with the same delimiter, marker, names, types, units, and fills that decode to the same
    typed value -- for string and typed fills, zero-valued ones included (finite table on the real function)."""
    import io as _io

    import yaml

    IO = real_module(MOD)
    fn = f"{MOD}.write_scsv_header"
    conv = {"string": str, "integer": int, "float": float, "complex": complex, "boolean": IO._parse_scsv_bool}
    table = {"string": ["", "N/A", "x y", "0", 0], "integer": ["0", "-1", 0, -1, 7, 10 ** 18], "float": ["NaN", "0.0", "inf", 0.0, -1.0, 1.5, float("nan"), "-99999.99", -99999.99, 1234567.0, 0.1 + 0.2, 1e-300, "0.1234567891"],
             "complex": ["NaN", "0j", "1+2j", 0j, 1 + 2j], "boolean": ["", False, True]}
    bad = []
    n = 0
    for delim, missing in ((",", "-"), (";", ""), ("\t", "NA")):
        for t, fills in table.items():
            for fill in fills:
                n += 1
                schema = {"delimiter": delim, "missing": missing, "fields": [{"name": "a", "type": t, "fill": fill, "unit": "m/s"}, {"name": "b", "type": "string"}]}
                buf = _io.StringIO()
                try:
                    IO.write_scsv_header(buf, schema)
                    lines = [ln[2:] if ln.startswith("# ") else ln.lstrip("#") for ln in buf.getvalue().splitlines() if ln.strip() != "---"]
                    back = yaml.safe_load("\n".join(lines))
                    back = back.get("schema", back)
                    f0 = back["fields"][0]
                    want = conv[t](np.nan if (t in ("float", "complex") and fill == "NaN") else fill)
                    got_raw = f0.get("fill", "")
                    got = conv[t](np.nan if (t in ("float", "complex") and got_raw == "NaN") else got_raw)
                    same = got == want or (isinstance(want, (float, complex)) and want != want and got != got)
                    if not (back["delimiter"] == delim and back["missing"] == missing and f0["name"] == "a" and f0.get("type") == t and f0.get("unit") == "m/s" and same and back["fields"][1]["name"] == "b"):
                        bad.append(f"{t} fill {fill!r}: header loads back as {f0!r}")
                except Exception as e:
                    bad.append(f"{t} fill {fill!r}: {type(e).__name__}: {str(e)[:60]}")
    run.exact(f"write_scsv_header: the written header loads back to the same schema; fills decode to the same typed value [{n} (delimiter, marker, type, fill) cases incl. typed zero fills]", fn, not bad, "; ".join(bad[:3]))


# ----------------------------------------------------------------------------- bounded: real round trips
def bounded(run):
    cnt = 400 if run.tier == "quick" else 6000 * run.tmul
    jobs = [dict(seed=run.seed * 37 + k, count=cnt // 8) for k in range(8)]
    res, errs = native.pmap("contracts.C16", "nat_roundtrip", jobs)
    run.worker_errors(errs, len(jobs))
    ev = sum(r["evaluations"] for r in res if r and "_error" not in r)
    fails = [f for r in res if r and "_error" not in r for f in r["failures"]]
    known = [f for f in fails if f.get("known")]
    fails = [f for f in fails if not f.get("known")]
    for f in known:
        kf = [k for k in run.known if k.get("bounded") == f["known"]]
        if kf:
            run.known_hits.append((kf[0], f["what"][:160]))
        else:
            fails.append(f)
    run.bounded_result("real save_scsv / read_scsv round trips over generated schemas (five types, 1-8 fields, CSV-legal delimiters, markers and fills incl. '' and NaN) and columns (1-2000 rows); single-fault schemas and data are refused with SCSVError",
                       f"{MOD}.save_scsv", f"{ev} generated files", ev, fails, ev)


YAML_TYPED = {"yes", "no", "true", "false", "on", "off", "null", "~", "y", "n"}


def _rand_str(rng, delim, missing):
    alphabet = list("abcXYZ019 _-+./:;|'\"#%(),é") + [delim]
    for _ in range(20):
        n = int(rng.integers(0, 8))
        s = "".join(rng.choice(alphabet) for _ in range(n)).strip()
        if s != missing and "\n" not in s and "\r" not in s:
            return s
    return "x"


def nat_roundtrip(seed, count):
    import logging
    import os
    import tempfile

    logging.disable(logging.CRITICAL)
    import pydrex.io as IO
    from pydrex.exceptions import SCSVError

    rng = np.random.default_rng(seed)
    fails, ev = [], 0
    tmp = tempfile.mkdtemp(prefix="pvscsv", dir=os.environ.get("VERIF_SCRATCH"))
    for it in range(count):
        ev += 1
        msgs, known = [], None
        delim = str(rng.choice(list(",;|\t:!@%&*") + [" "]))
        missing = str(rng.choice(["-", "", "NA", "n/a", "missing", "?", "-999"]))
        if delim in missing or delim == missing:
            missing = "-" if delim != "-" else "?"
        nf = int(rng.integers(1, 9))
        nrows = int(rng.choice([1, 2, 17, 300])) if it % 40 else int(rng.choice([2000, 2049, 4097, 5000]))
        fields, cols = [], []
        for k in range(nf):
            t = str(rng.choice(["string", "integer", "float", "boolean", "complex"]))
            fld = {"name": f"f{k}_{'abc'[k % 3]}", "type": t}
            if t == "string":
                fill = str(rng.choice(["", "N/A", "none", "x y", "0"]))
                if rng.random() < 0.7:
                    fld["fill"] = fill
                else:
                    fill = ""
                col = [(_rand_str(rng, delim, missing) if rng.random() < 0.8 else fill) for _ in range(nrows)]
                # cells that look like structure of the file format (header delimiter, comment, YAML, quotes)
                special = ["---", "--- ", "#", "# x", "- a", "a: b", "'", '"', "---x", "schema:", "...", "~", "null"]
                col = [(str(rng.choice(special)) if rng.random() < 0.04 else c) for c in col]
                col = [c.strip() for c in col]
                col = [c if (c != missing and delim not in c or c == fill) else fill for c in col]
                col = [c if c != missing else fill for c in col]
            elif t == "integer":
                fill = str(rng.choice(["0", "-1", "999999"]))
                fld["fill"] = fill if rng.random() < 0.7 else int(fill)
                col = [int(rng.choice([0, -1, 999999, 7, -(10 ** 18), 10 ** 30, int(rng.integers(-1000, 1000))])) for _ in range(nrows)]
            elif t == "float":
                fill = str(rng.choice(["NaN", "0.0", "-1.0", "nan", "inf", "-99999.99", "1234567.0", "0.1234567891", "1e-300", "-999.25"]))
                fld["fill"] = fill if (rng.random() < 0.7 or fill in ("nan", "inf")) else float(fill)
                fv = float(fill)
                near = [fv + 1e-9, fv * (1 + 1e-7) if np.isfinite(fv) else 1.0, fv + 0.05 if np.isfinite(fv) else 2.0, 1e-12 * rng.normal(), 1e-15]
                col = [float(rng.choice([0.0, -1.0, float("nan"), float("inf"), float("-inf"), 1e-300, 1.5, rng.normal() * 1e10, 0.1 + 0.2, fv] + near)) for _ in range(nrows)]
            elif t == "boolean":
                col = [bool(rng.integers(2)) for _ in range(nrows)]
                fill = ""
                if rng.random() < 0.3:
                    fld["fill"] = bool(rng.integers(2))
            else:
                fill = str(rng.choice(["NaN", "0j", "1+2j"]))
                fld["fill"] = fill if (rng.random() < 0.7 or fill == "NaN") else complex(fill)
                col = [complex(rng.choice([0j, 1 + 2j, complex(rng.normal(), rng.normal()), complex(float("nan"), 0), complex(float("inf"), -1.5)])) for _ in range(nrows)]
            if rng.random() < 0.3:
                fld["unit"] = str(rng.choice(["m/s", "GPa"]))  # (a unit such as "%" is written unquoted and breaks the YAML header: outside C16, noted in DESIGN)
            fields.append(fld)
            cols.append(col)
        schema = {"delimiter": delim, "missing": missing, "fields": fields}
        path = os.path.join(tmp, f"t{it}.scsv")
        try:
            IO.save_scsv(path, schema, cols)
            out = IO.read_scsv(path)
            if list(out._fields) != [f["name"] for f in fields]:
                msgs.append("field names/order changed")
            for f, got, want in zip(fields, out, cols):
                if len(got) != len(want):
                    msgs.append(f"{f['name']}: {len(got)} rows read, {len(want)} written")
                    continue
                for g_, w_ in zip(got, want):
                    same = (type(g_) is type(w_) or (isinstance(g_, (int, float, complex, bool, str)) and type(g_) == type(w_))) and (
                        g_ == w_ or (isinstance(w_, float) and math.isnan(w_) and math.isnan(g_)) or
                        (isinstance(w_, complex) and (math.isnan(w_.real) or math.isnan(w_.imag)) and (math.isnan(g_.real) == math.isnan(w_.real)) and (math.isnan(g_.imag) == math.isnan(w_.imag))))
                    if not same:
                        msgs.append(f"{f['name']} ({f['type']}, fill {f.get('fill')!r}, delimiter {delim!r}, marker {missing!r}): wrote {w_!r}, read {g_!r}")
                        break
        except Exception as e:
            msgs.append(f"valid data raised {type(e).__name__}: {str(e)[:100]}")
        # history: the very schema object that was just used for a save is corrupted in place (field level) and used again
        try:
            f0 = schema["fields"][0]
            keep = dict(f0)
            if it % 3 == 0:
                f0["name"] = "not an identifier"
            elif it % 3 == 1:
                f0["type"] = "int32"
            else:
                f0["type"] = "integer"; f0.pop("fill", None)
            try:
                IO.save_scsv(os.path.join(tmp, f"h{it}.scsv"), schema, cols)
                msgs.append(f"a schema object used for an earlier save and then corrupted in place (class {it % 3}) was accepted")
            except SCSVError:
                pass
            except Exception as e:
                msgs.append(f"in-place corrupted schema raised {type(e).__name__} instead of SCSVError")
            f0.clear(); f0.update(keep)
        except Exception as e:
            msgs.append(f"harness: {e}")
        # single-fault corruptions are refused
        try:
            k = int(rng.integers(6))
            bad_schema, bad_cols = dict(schema, fields=[dict(f) for f in fields]), [list(c) for c in cols]
            if k == 0:  # unequal column lengths: a longer first, a longer later, or a shorter later column
                if nf == 1:
                    bad_schema["fields"] = bad_schema["fields"] + [dict(fields[0], name="dup")]
                    bad_cols.append(list(cols[0]))
                j = [0, len(bad_cols) - 1, len(bad_cols) - 1][it % 3]
                bad_cols[j] = bad_cols[j] + bad_cols[j][:1] if it % 3 < 2 else bad_cols[j][:-1] + ([] if nrows > 1 else [])
                if it % 3 == 2 and nrows == 1:
                    bad_cols[j] = bad_cols[j] + bad_cols[j]
            elif k == 1:
                bad_cols = bad_cols + [list(cols[0])]
            elif k == 2:
                bad_schema["missing"] = delim + "x"
            elif k == 3:
                bad_schema["fields"][0]["name"] = "not an identifier"
            elif k == 5:  # an integer column holding a float-typed / float-notation cell (accepting it would change the type read back)
                bad_schema["fields"] = bad_schema["fields"] + [{"name": "zz", "type": "integer", "fill": "0"}]
                bad_cols = bad_cols + [[[5.0, np.float64(3.0), "7.0", 1e3, "1e2", 2.5][it % 6]] + [1] * (nrows - 1)]
            else:
                bad_schema["fields"] = bad_schema["fields"] + [{"name": "zz", "type": "integer", "fill": "0"}]
                bad_cols = bad_cols + [["notanint"] * nrows]
            p2 = os.path.join(tmp, f"b{it}.scsv")
            try:
                IO.save_scsv(p2, bad_schema, bad_cols)
                msgs.append(f"single-fault corruption class {k} was accepted")
            except SCSVError:
                pass
            except Exception as e:
                msgs.append(f"corruption class {k} raised {type(e).__name__} instead of SCSVError")
        except Exception as e:
            msgs.append(f"harness: {e}")
        for p_ in (path,):
            try:
                os.unlink(p_)
            except OSError:
                pass
        if msgs:
            # recorded findings, identified by the input class that triggers them (anything else is a violation)
            if delim == " " and all("corruption class" not in m for m in msgs):
                known = "scsv-space-delimiter"
            elif all("wrote" in m_ for m_ in msgs):
                # every mismatch is a numeric cell whose text equals the missing marker (recorded finding); anything else is reported
                hit_fields = [f for f, c_ in zip(fields, cols) if f["type"] in ("integer", "float", "complex") and any(str(v) == missing for v in c_)]
                if hit_fields and all(any(m_.startswith(f["name"] + " ") for f in hit_fields) and f"wrote {missing}," in m_.replace("wrote (", "wrote ") for m_ in msgs):
                    known = "scsv-numeric-equals-marker"
            fails.append(dict(case=f"{seed}.{it}", checker="contracts.C16:nat_roundtrip_case", inputs=dict(seed=int(seed), it=it, count=count, delimiter=delim, missing=missing), what="; ".join(msgs[:2]), known=known))
    return dict(evaluations=ev, failures=fails[:6])


def nat_roundtrip_case(seed, it, count, **_):
    r = nat_roundtrip(seed, count)
    hit = [f for f in r["failures"] if f["case"] == f"{seed}.{it}"]
    return dict(ok=not hit, failures=hit)
