"""C05 — texture depends on the strain path, not on the strain rate."""
from contracts import updfacets as UF
from contracts.bounded_upd import run_bounded


def run(run):
    run.assume("S-REAL", "S-PY", "S-NUMPY", "A-LSODA", "A-EIG")
    UF.c05_facets(run)
    UF.callee_frames(run)
    run.note("lemma (cited): y'(s) = k f(k s, y) on [t0/k, t1/k] has the solution y(k s); with the proved homogeneity of the right-hand side and the proved covariance of the solver set-up this is the time-rescaled problem")
    run_bounded(run, ["C05"], "paired runs with k in {1e-15, 1e-9, 1e-4, 1e3}", UF.FN)
