"""Symbolic harness for Mineral.update_orientations (closures eval_rhs / perform_step reached through the
LSODA stub), shared by C01 C05 C06 C07 C08 C09.

The real code objects of pydrex.minerals / pydrex.utils run with:
  n_grains symbolic (lifted arrays: orientations A_ij(g), fractions f(g), state vector YVec),
  LSODA           -> contract stub (A-LSODA): step() havocs the whole state (finite, positive fraction mass) and
                     evaluates the right-hand side at an arbitrary (t, y); 1 or 2 steps are explored, which covers the
                     first and a generic iteration of `while solver.status == "running"`,
  la.eigvalsh     -> contract stub (A-EIG): ascending real roots with trace and Frobenius relations,
  polar_decompose -> fresh symbols,
  core.derivatives-> contract stub recording its keyword arguments (or the real lifted run, on request),
  extract_vars / apply_gbs -> the real code (default) or recording stubs.
"""
import itertools
import types

import numpy as np
import z3

from pv import engine as E
from pv import larr as LA
from pv import sym as S
from pv.sym import Sym, SymInt, sym, symarr
from pv.util import real_module


class Mut:
    """Mutation log shared by the monitored lists of one mineral."""

    def __init__(self):
        self.log = []


class MonList(list):
    """list that logs every mutation (append / setitem / del / extend / ...)."""

    def __init__(self, items, name, mut):
        super().__init__(items)
        self._name, self._mut = name, mut

    def _l(self, what, *a):
        self._mut.log.append((self._name, what) + a)

    def append(self, x):
        self._l("append", x)
        super().append(x)

    def __setitem__(self, k, v):
        self._l("setitem", k)
        super().__setitem__(k, v)

    def __delitem__(self, k):
        self._l("delitem", k)
        super().__delitem__(k)

    def extend(self, it):
        self._l("extend")
        super().extend(it)

    def insert(self, i, x):
        self._l("insert", i)
        super().insert(i, x)

    def pop(self, *a):
        self._l("pop")
        return super().pop(*a)

    def clear(self):
        self._l("clear")
        super().clear()

    def __iadd__(self, o):
        self._l("iadd")
        return super().__iadd__(o)


class Pos:
    """Position returned by the pathline callable: remembers the time it was asked for."""

    def __init__(self, t):
        self.t = t

    def ravel(self):
        return self


class Trace:
    def __init__(self):
        self.lsoda = None  # dict(fun, t0, y0, t_bound, kw)
        self.rhs = []  # (t, y_in, out or exception)
        self.deriv = []  # kwargs of core.derivatives calls
        self.gbs = []  # (args, result)
        self.extract = []  # (y, n, result)
        self.vg_calls = []  # (t, x)
        self.steps = 0
        self.y_after_steps = []
        self.eig = []
        self.ret = None
        self.exc = None
        self.mut = None
        self.mineral = None
        self.snap0 = None
        self.regime_calls = []


class Harness:
    def __init__(self, phase=0, fabric=0, regime=4, assemblage=(0,), own_index=0, lifted=True, n_concrete=2,
                 real_derivatives=False, stub_utils=False, L_kind="sym", lsoda_fail=False, get_regime=False,
                 derivatives_raises=None, kw=None, suffix="", steps_choices=(1, 2), L_scale=None, t_scale=None, frame=False):
        self.phase, self.fabric, self.regime = phase, fabric, regime
        self.assemblage, self.lifted, self.n_concrete = assemblage, lifted, n_concrete
        self.real_derivatives, self.stub_utils, self.L_kind = real_derivatives, stub_utils, L_kind
        self.lsoda_fail, self.get_regime, self.derivatives_raises = lsoda_fail, get_regime, derivatives_raises
        self.kw = kw or {}
        self.sfx = suffix
        self.steps_choices = steps_choices
        self.L_scale, self.t_scale = L_scale, t_scale
        self.frame = frame
        self.M = real_module("pydrex.minerals")
        self.U = real_module("pydrex.utils")
        self.core = real_module("pydrex.core")
        self.err = real_module("pydrex.exceptions")

    # ------------------------------------------------------------------ one symbolic execution
    def body(self):
        M, U, core = self.M, self.U, self.core
        tr = Trace()
        self.trace = tr
        sfx = self.sfx
        c = S.ctx()
        if self.lifted:
            n = SymInt(z3.Int("n"))
            c.assume(n.z >= 1)
            sg = LA.Sigma(n)
            LA.Sigma.cur = sg
            LA.LoopRule.cur = LA.LoopRule()
            O0 = LA.larr("O0" + sfx, n, (3, 3))
            f0 = LA.larr("f0" + sfx, n, ())
        else:
            n = self.n_concrete
            sg = None
            O0 = symarr("O0" + sfx, (n, 3, 3))
            f0 = symarr("f0" + sfx, (n,))
            O0.flags.writeable = False
            f0.flags.writeable = False
        if self.frame:
            Qn, qs, hq, _ = S.quat_rotation("q")
            c.assume(hq[0])
            Qm = S.ew(lambda v: v / qs, Qn)
            self.Q = Qm
            if self.lifted:
                O0 = LA.LArr(n, (3, 3), lambda i, a=O0.fn: S._matmul(a(i), Qm.T))
        self.n, self.sigma, self.O0, self.f0 = n, sg, O0, f0
        shim = LA.NPLift() if self.lifted else S.NPShim()
        tr_self = tr
        me = self

        # ---- external stubs
        class LSODAStub:
            def __init__(s, fun, t0, y0, t_bound, **kw):
                tr_self.lsoda = dict(fun=fun, t0=t0, y0=y0, t_bound=t_bound, kw=kw)
                s.fun, s.t = fun, t0
                s.status = "running"
                s.k = 0
                if me.lifted:
                    if not isinstance(y0, LA.Packed) or len(y0.parts) != 3:
                        raise E.Unsupported("y_start is not hstack((F.flatten(), orientations.flatten(), fractions))")
                    s.y = LA.YVec(n, y0.block(0), y0.block(1), y0.block(2))
                else:
                    s.y = y0.copy()
                s.nsteps = None

            def step(s):
                cc = S.ctx()
                s.k += 1
                if s.nsteps is None:
                    s.nsteps = 1
                    for cand in me.steps_choices[1:]:
                        if cc.choose():
                            s.nsteps = cand
                            break
                # A-LSODA: the state after a step is an arbitrary finite vector with positive fraction mass
                if me.lifted:
                    yk = LA.YVec(n, symarr(f"yF{s.k}{sfx}", (9,)), LA.larr(f"yO{s.k}{sfx}", n, (3, 3)), LA.larr(f"yf{s.k}{sfx}", n, ()))
                    if me.frame:  # the same havoc state expressed in the rotated frame
                        Fk = S._matmul(me.Q, yk.F9.reshape(3, 3)).flatten()
                        yk = LA.YVec(n, Fk, LA.LArr(n, (3, 3), lambda i, a=yk.O.fn: S._matmul(a(i), me.Q.T)), yk.f)
                else:
                    yk = symarr(f"ys{s.k}{sfx}", (10 * n + 9,))
                if me.lifted:
                    mass = yk.f.clip(0, None).sum()  # registers the Sigma symbol the real extract_vars will use
                else:
                    mass = S._sum(S.ew(lambda v: S.s_clip(v, 0, None), yk[9 * n + 9:]))
                cc.assume(S.zz(mass) > 0)
                tk = sym(f"t{s.k}{sfx}")
                # the right-hand side is evaluated at an arbitrary state during the step
                try:
                    yin = yk.copy()
                    out = s.fun(tk, yin)
                    tr_self.rhs.append((tk, yin, out, None))
                except E.UNSUPPORTED_EXC:
                    raise
                except S.Infeasible:
                    raise
                except Exception as ex_:
                    tr_self.rhs.append((tk, yk, None, ex_))
                    raise
                s.y = yk
                s.t = tk
                tr_self.steps = s.k
                tr_self.y_after_steps.append(yk)
                if me.lsoda_fail and s.k == s.nsteps:
                    s.status = "failed"
                    return "stub: step failed"
                if s.k >= s.nsteps:
                    s.status = "finished"
                return None

        class LAStub:
            @staticmethod
            def eigvalsh(D):
                cc = S.ctx()
                k = len(tr_self.eig) + 1
                ev = symarr(f"ev{k}{sfx}", (3,))
                tr_self.eig.append((D, ev))
                e0, e1, e2 = (S.zz(v) for v in ev)
                Dz = [[S.zz(D[i, j]) for j in range(3)] for i in range(3)]
                cc.assume(z3.And(e0 <= e1, e1 <= e2))
                cc.assume(e0 + e1 + e2 == Dz[0][0] + Dz[1][1] + Dz[2][2])
                fro = sum((Dz[i][j] * Dz[i][j] for i in range(3) for j in range(3)), z3.RealVal(0))
                cc.assume(e0 * e0 + e1 * e1 + e2 * e2 == fro, lazy=True)
                zero = z3.And(*[Dz[i][j] == 0 for i in range(3) for j in range(3)])
                cc.assume(z3.Implies(zero, z3.And(e0 == 0, e1 == 0, e2 == 0)))
                cc.assume(z3.Implies(z3.And(e0 == 0, e2 == 0), zero), lazy=True)
                return ev

        class TensStub:
            @staticmethod
            def polar_decompose(m, left=True):
                k = len(tr_self.rhs)
                return (symarr(f"pdR{k}{sfx}", (3, 3)), symarr(f"pdU{k}{sfx}", (3, 3)))

        def deriv_stub(**kw):
            tr_self.deriv.append(kw)
            if me.derivatives_raises is not None:
                raise me.derivatives_raises
            k = len(tr_self.deriv)
            ng = kw["n_grains"]
            if me.lifted:
                return LA.larr(f"dO{k}{sfx}", ng, (3, 3)), LA.larr(f"df{k}{sfx}", ng, ())
            return symarr(f"dO{k}{sfx}", (ng, 3, 3)), symarr(f"df{k}{sfx}", (ng,))

        class CoreProxy:
            def __getattr__(s, k):
                return getattr(core, k)

        cp = CoreProxy()
        if self.real_derivatives:
            gcore = E.rebind_module(core, overrides={"range": LA.sym_range} if self.lifted else None, np_shim=shim)
            cp.derivatives = gcore["derivatives"]
        else:
            cp.derivatives = deriv_stub

        gU = E.rebind_module(U, np_shim=shim)
        real_extract, real_gbs = gU.get("extract_vars"), gU.get("apply_gbs")

        class UtilsProxy:
            def __getattr__(s, k):
                return getattr(U, k)

        up = UtilsProxy()

        def extract_rec(y, ng):
            r = real_extract(y, ng)
            snap = tuple(x.copy() if hasattr(x, "copy") else x for x in r)  # apply_gbs mutates its arguments in place
            tr_self.extract.append((y, ng, r, snap))
            return r

        def gbs_rec(o, f, chi, prev, ng):
            args = (o.copy() if hasattr(o, "copy") else o, f.copy() if hasattr(f, "copy") else f, chi, prev, ng)
            r = real_gbs(o, f, chi, prev, ng)
            tr_self.gbs.append((args, r, (o, f)))
            return r

        up.extract_vars = extract_rec
        up.apply_gbs = gbs_rec

        class LogStub:
            def __getattr__(s, k):
                return lambda *a, **kk: None

        g = dict(M.__dict__)
        g.update(np=shim, la=LAStub, LSODA=LSODAStub, _core=cp, _utils=up, _tensors=TensStub, _log=LogStub())
        upd = E.rebind_function(M.Mineral.update_orientations, g)

        # ---- the mineral
        m = M.Mineral.__new__(M.Mineral)
        mut = Mut()
        m.phase, m.fabric, m.regime = core.MineralPhase(self.phase), core.MineralFabric(self.fabric), core.DeformationRegime(self.regime)
        m.n_grains, m.lband, m.uband, m.seed = n, None, None, None
        m.orientations = MonList([O0], "orientations", mut)
        m.fractions = MonList([f0], "fractions", mut)
        tr.mut, tr.mineral, tr.snap0 = mut, m, (O0, f0, getattr(O0, "writes", 0), getattr(f0, "writes", 0))
        self.attr_before = {k: v for k, v in m.__dict__.items()}
        tr.attr_before = dict(self.attr_before)

        # ---- parameters
        phis = tuple(sym(f"phi{k}{sfx}") for k in range(len(self.assemblage)))
        self.phis = phis
        params = dict(
            phase_assemblage=tuple(core.MineralPhase(p) for p in self.assemblage), phase_fractions=phis,
            stress_exponent=sym("p" + sfx), deformation_exponent=sym("nn" + sfx), nucleation_efficiency=sym("lam" + sfx),
            gbm_mobility=sym("Mob" + sfx), gbs_threshold=sym("chi" + sfx),
        )
        self.params = params
        c.assume(z3.And(params["gbs_threshold"].z >= 0, params["gbs_threshold"].z < 1))
        F0 = symarr("F0" + sfx, (3, 3))
        self.F0 = F0
        if self.L_kind == "zero":
            Lm = S.to_obj(np.zeros((3, 3)))
        elif self.L_kind == "skew":
            w = symarr("w" + sfx, (3,))
            Lm = S.SymArray(np.array([[0, -w[2], w[1]], [w[2], 0, -w[0]], [-w[1], w[0], 0]], dtype=object))
        else:
            Lm = symarr("L" + sfx, (3, 3))
        if self.L_scale is not None:
            Lm = S.ew(lambda v: v * self.L_scale, Lm)
        if self.frame:
            Lm = S._matmul(self.Q, S._matmul(Lm, self.Q.T))
            F0 = S._matmul(self.Q, F0)
            self.F0 = F0
        self.Lm = Lm

        def get_L(t, x):
            tr_self.vg_calls.append((t, x))
            return Lm

        def get_pos(t):
            return Pos(t)

        t0, t1 = sym("t0" + sfx), sym("t1" + sfx)
        if self.t_scale is not None:
            t0, t1 = t0 / self.t_scale, t1 / self.t_scale
        self.t0, self.t1 = t0, t1
        gr = None
        if self.get_regime is not False and self.get_regime is not None:
            def gr(t, x):
                tr_self.regime_calls.append((t, x))
                return core.DeformationRegime(self.get_regime)
        try:
            tr.ret = upd(m, params, F0, get_L, (t0, t1, get_pos), gr, **dict(self.kw))
        except (S.Infeasible,) + E.UNSUPPORTED_EXC:
            raise
        except Exception as ex_:
            if E.harness_artifact(ex_):
                raise E.Unsupported(f"proxy limitation: {type(ex_).__name__}: {str(ex_)[:160]}")
            tr.exc = ex_
        tr.sums = dict(sg.sums) if sg is not None else {}
        return tr

    def explore(self, hyps=(), max_paths=64):
        try:
            return E.explore(self.body, hyps=list(hyps), max_paths=max_paths)
        finally:
            LA.Sigma.cur = None
            LA.LoopRule.cur = None
