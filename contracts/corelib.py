"""Contracts of the pydrex.core cone shared by C02 C03 C04 C07 C08.

Specs are written in tensor form (independently of the index loops of the code) and have two
readings: symbolic (Sym / SymArray) for the prover, float for native replay.
"""
import itertools
import math

import numpy as np
import z3

from pv import engine as E
from pv import native
from pv import sym as S
from pv.facets import discharge_safety, eval_spec, functional, model_args, prove_entries, replay_functional
from pv.natlib import enc
from pv.sym import Sym, sym, symarr, symmat_sym
from pv.util import Z, alleq, real_module
from specs import drex_published as O

MOD = "pydrex.core"
INF = float("inf")
PAIRS = [(0, 0), (0, 1), (0, 2), (0, 3), (0, 4), (1, 5)]
PAIR_NAMES = {(0, 0): "olivine_A", (0, 1): "olivine_B", (0, 2): "olivine_C", (0, 3): "olivine_D", (0, 4): "olivine_E", (1, 5): "enstatite_AB"}
PERMS = list(itertools.permutations(range(4)))


def load():
    core = real_module(MOD)
    return core


def param_hyps(p, n, lam):
    return [p.z >= 1, p.z <= 2, n.z >= 2, n.z <= 5, lam.z >= 0]


# ----------------------------------------------------------------------------- specs of the helpers
def spec_invariants(D, A):
    return np.array(O.invariants(A, D), dtype=object)


def spec_defrate(phase, A, beta):
    G = np.empty((3, 3), dtype=object)
    for i in range(3):
        for j in range(3):
            acc = 0
            for s_, (l, nrm) in enumerate(O.SLIP):
                acc = acc + 2 * beta[s_] * A[l, i] * A[nrm, j]
            G[i, j] = acc
    return G


def spec_softest(G, L):
    num, den = O.softest_rate(G, L)
    if isinstance(den, Sym) or isinstance(num, Sym):
        dz, nz = S.zz(den), S.zz(num)
        return Sym(z3.If(z3.And(dz > S.R(-1e-15), dz < S.R(1e-15)), z3.RealVal(0), nz / dz))
    return 0.0 if -1e-15 < den < 1e-15 else num / den


def spec_orient(A, L, G, gamma):
    return O.spin_rotation(A, L, G, gamma)


def spec_slip_rates(crss, idx):
    def spec(I, n):
        return np.array(O.slip_rates_olivine(crss, I, idx, n), dtype=object)
    return spec


def spec_energy(crss):
    def spec(beta, gamma, p, n, lam):
        return O.strain_energy(crss, beta, gamma, p, n, lam)
    return spec


# ----------------------------------------------------------------------------- helper facets
def verify_get_crss(run, core):
    """Table equality (C02) and rejection of every invalid pair (C07), exhaustively."""
    fn = f"{MOD}.get_crss"
    f = getattr(core.get_crss, "py_func", core.get_crss)
    table_ok, reject_ok, bad = True, True, []
    for ph in range(-2, 5):
        for fb in range(-2, 9):
            try:
                got = tuple(float(v) for v in f(ph, fb))
                exc = None
            except ValueError as e:
                got, exc = None, e
            except Exception as e:  # any other exception type is a violation of the exceptional postcondition
                got, exc = None, e
                reject_ok = False
                bad.append((ph, fb, type(e).__name__))
                continue
            if (ph, fb) in O.CRSS:
                if got != tuple(float(v) for v in O.CRSS[(ph, fb)]):
                    table_ok = False
                    bad.append((ph, fb, got))
            elif exc is None:
                reject_ok = False
                bad.append((ph, fb, got))
    # the returned array is the caller's: modifying it must not change what later calls return (no shared table row)
    for (ph, fb), want in O.CRSS.items():
        try:
            a = f(ph, fb)
            a[...] = -7.0
            again = tuple(float(v) for v in f(ph, fb))
        except (ValueError, TypeError):  # a read-only result cannot be modified at all: fine
            continue
        if again != tuple(float(v) for v in want):
            table_ok = False
            bad.append((ph, fb, "changed after the caller modified an earlier result", again))
    return table_ok, reject_ok, bad


def nat_get_crss(phase, fabric):
    import pydrex.core as c

    try:
        return dict(ok=True, value=[float(v) for v in c.get_crss(phase, fabric)])
    except Exception as e:
        return dict(ok=False, exc=type(e).__name__)


def helper_facets(run, core, which=("invariants", "slip_rates", "defrate", "softest", "orient", "energy")):
    """`helper == spec` for the private helpers (C02 facets; also what the stubs of the callers assume)."""
    g = E.rebind_module(core)
    p, n, lam = sym("p"), sym("n"), sym("lam")
    PH = param_hyps(p, n, lam)
    if "invariants" in which:
        functional(run, "_get_slip_invariants==sum D_ij l_i n_j", MOD, "_get_slip_invariants", g,
                   lambda: (symarr("D", (3, 3)), symarr("A", (3, 3))), spec_invariants)
    if "defrate" in which:
        functional(run, "_get_deformation_rate==2 sum beta l(x)n", MOD, "_get_deformation_rate", g,
                   lambda: (0, symarr("A", (3, 3)), symarr("b", (4,))), spec_defrate)
    if "softest" in which:
        if getattr(core, "_USE_ORIGINAL_DREX", False):
            run.undecided("_get_slip_rate_softest", f"{MOD}._get_slip_rate_softest", "_USE_ORIGINAL_DREX is set: contract does not apply")
        else:
            functional(run, "_get_slip_rate_softest==(Gs:Ls)/(Gs:Gs)", MOD, "_get_slip_rate_softest", g,
                       lambda: (symarr("G", (3, 3)), symarr("L", (3, 3))), spec_softest)
    if "orient" in which:
        functional(run, "_get_orientation_change==A.skew(L-gamma G)^T", MOD, "_get_orientation_change", g,
                   lambda: (symarr("A", (3, 3)), symarr("L", (3, 3)), symarr("G", (3, 3)), sym("gam")), spec_orient)
    if "slip_rates" in which:
        seen = set()
        for (ph, fb) in PAIRS[:5]:
            crss = O.CRSS[(ph, fb)]
            if crss in seen:
                continue
            seen.add(crss)
            for idx in PERMS:
                if crss[idx[3]] == INF:
                    continue  # excluded by the precondition (the most active system has finite CRSS)
                carr = np.array(crss, dtype=float)
                iarr = np.array(idx)
                functional(run, f"_get_slip_rates_olivine[{PAIR_NAMES[(ph, fb)]},order={''.join(map(str, idx))}]==spec", MOD, "_get_slip_rates_olivine", g,
                           lambda carr=carr, iarr=iarr: (symarr("I", (4,)), iarr, carr, sym("n")),
                           lambda I, i_, c_, n_, crss=crss, idx=idx: np.array(O.slip_rates_olivine(crss, I, idx, n_), dtype=object),
                           hyps=PH + [z3.Real(f"I_{idx[3]}") != 0])
    if "energy" in which:
        for (ph, fb) in PAIRS:
            crss = O.CRSS[(ph, fb)]
            perms = PERMS if ph == 0 else [q for q in PERMS if q[3] == 3]
            for idx in perms:
                # precondition: the excluded system idx[0] contributes nothing (beta == 0 or infinite CRSS)
                extra = [] if crss[idx[0]] == INF else [z3.Real(f"b_{idx[0]}") == 0]
                # precondition: a system with infinite CRSS has zero relative slip rate (true at every call site)
                extra += [z3.Real(f"b_{s_}") == 0 for s_ in range(4) if crss[s_] == INF]
                carr = np.array(crss, dtype=float)
                iarr = np.array(idx)
                functional(run, f"_get_strain_energy[{PAIR_NAMES[(ph, fb)]},order={''.join(map(str, idx))}]==sum rho exp(-lam rho^2)", MOD, "_get_strain_energy", g,
                           lambda carr=carr, iarr=iarr: (carr, symarr("b", (4,)), iarr, sym("gam"), sym("p"), sym("n"), sym("lam")),
                           lambda c_, b, i_, gam, p_, n_, l_, crss=crss: O.strain_energy(crss, b, gam, p_, n_, l_),
                           hyps=PH + extra)


# ----------------------------------------------------------------------------- modular run of _get_rotation_and_strain
class GrainRun:
    """One symbolic execution of the real _get_rotation_and_strain with the helpers under contract.

    The stubs return fresh symbols; their defining equalities (spec of the arguments actually passed)
    are kept lazily and used only when obligations are proved (DESIGN 2.4)."""

    def __init__(self, core, phase, fabric, symmetric_D=True, D_from_L=False):
        self.core, self.phase, self.fabric = core, phase, fabric
        self.symmetric_D = symmetric_D
        self.D_from_L = D_from_L
        self.calls = []
        self.crss = O.CRSS[(phase, fabric)]

    def stubs(self):
        me = self

        def fresh_arr(base, shape):
            c = S.ctx()
            a = np.empty(shape, dtype=object)
            for ix in np.ndindex(*shape):
                a[ix] = Sym(z3.Real(c.fresh(base + "".join(map(str, ix)))))
            return a.view(S.SymArray)

        def st_invariants(strain_rate, orientation):
            c = S.ctx()
            I = fresh_arr("I", (4,))
            spec = spec_invariants(strain_rate, orientation)
            defs = [S.zz(I[k]) == S.zz(spec[k]) for k in range(4)]
            for d_ in defs:
                c.assume(d_, lazy=True)
            if me.symmetric_D:
                c.assume(S.zz(I[1]) == S.zz(I[3]))  # D symmetric => I_1 == I_3 (needed for path feasibility)
            me.calls.append(("invariants", (strain_rate, orientation), I, defs))
            return I

        def st_slip_rates(invariants, slip_indices, crss, n_):
            c = S.ctx()
            idx = tuple(int(i) for i in slip_indices)
            # precondition of the callee at this call site
            finite = not math.isinf(float(crss[idx[3]]))
            c.obligation("pre:_get_slip_rates_olivine: most active system has finite CRSS", z3.BoolVal(finite), kind="pre")
            c.obligation("pre:_get_slip_rates_olivine: invariants[i_max] != 0", S.zz(invariants[idx[3]]) != 0, kind="pre")
            if not finite:
                raise E.Infeasible()
            c.assume(S.zz(invariants[idx[3]]) != 0)
            b = fresh_arr("b", (4,))
            spec = O.slip_rates_olivine(tuple(float(x) for x in crss), invariants, idx, n_)
            defs = [S.zz(b[k]) == S.zz(spec[k]) for k in range(4)]
            for d_ in defs:
                c.assume(d_, lazy=True)
            me.calls.append(("slip_rates", (invariants, idx, crss, n_), b, defs))
            return b

        def st_defrate(phase, orientation, slip_rates):
            c = S.ctx()
            G = fresh_arr("G", (3, 3))
            spec = spec_defrate(phase, orientation, slip_rates)
            defs = [S.zz(G[ix]) == S.zz(spec[ix]) for ix in np.ndindex(3, 3)]
            for d_ in defs:
                c.assume(d_, lazy=True)
            me.calls.append(("defrate", (phase, orientation, slip_rates), G, defs))
            return G

        def st_softest(G, L):
            c = S.ctx()
            gam = Sym(z3.Real(c.fresh("gam")))
            num, den = O.softest_rate(G, L)
            dz, nz = S.zz(den), S.zz(num)
            small = z3.And(dz > S.R(-1e-15), dz < S.R(1e-15))
            defs = [z3.Implies(small, gam.z == 0), z3.Implies(z3.Not(small), gam.z * dz == nz)]
            for d_ in defs:
                c.assume(d_, lazy=True)
            me.calls.append(("softest", (G, L), gam, defs))
            return gam

        def st_orient(A, L, G, gam):
            c = S.ctx()
            dA = fresh_arr("dA", (3, 3))
            spec = spec_orient(A, L, G, gam)
            defs = [S.zz(dA[ix]) == S.zz(spec[ix]) for ix in np.ndindex(3, 3)]
            for d_ in defs:
                c.assume(d_, lazy=True)
            me.calls.append(("orient", (A, L, G, gam), dA, defs))
            return dA

        def st_energy(crss, slip_rates, slip_indices, gam, p_, n_, lam_):
            c = S.ctx()
            idx = tuple(int(i) for i in slip_indices)
            cr = tuple(float(x) for x in crss)
            if cr[idx[0]] != INF:
                c.obligation("pre:_get_strain_energy: excluded system has zero relative slip rate", S.zz(slip_rates[idx[0]]) == 0, kind="pre")
            for s_ in range(4):
                if cr[s_] == INF:
                    c.obligation(f"pre:_get_strain_energy: infinite-CRSS system {s_} has zero relative slip rate", S.zz(slip_rates[s_]) == 0, kind="pre")
            En = Sym(z3.Real(c.fresh("E")))
            spec = O.strain_energy(cr, slip_rates, gam, p_, n_, lam_)
            defs = [En.z == S.zz(spec)]
            c.assume(defs[0], lazy=True)
            me.calls.append(("energy", (cr, slip_rates, idx, gam, p_, n_, lam_), En, defs))
            return En

        return {
            "_get_slip_invariants": st_invariants,
            "_get_slip_rates_olivine": st_slip_rates,
            "_get_deformation_rate": st_defrate,
            "_get_slip_rate_softest": st_softest,
            "_get_orientation_change": st_orient,
            "_get_strain_energy": st_energy,
        }

    def explore(self, hyps=(), stubs=None, max_paths=400):
        core = self.core
        present = [k for k in self.stubs() if hasattr(core, k)]
        me = self

        class RecShim(S.NPShim):
            def argsort(self, a, *aa, **kk):
                perm = S.sym_argsort(a)
                me.calls.append(("argsort", (np.asarray(a, dtype=object).copy(),), tuple(int(i) for i in perm), []))
                return perm

        g = E.rebind_module(core, overrides={k: v for k, v in (stubs or self.stubs()).items() if k in present}, np_shim=RecShim())
        f = g.get("_get_rotation_and_strain")
        if f is None:
            return None
        self.args = {}

        def body():
            self.calls = []
            A = symarr("A", (3, 3))
            L = symarr("L", (3, 3))
            if self.D_from_L:
                D = S.ew(lambda a, b: (a + b) / 2, L, L.T)  # C02's quantifier: D is the symmetric part of L
            else:
                D = symmat_sym("D", 3) if self.symmetric_D else symarr("D", (3, 3))
            p, n, lam = sym("p"), sym("n"), sym("lam")
            self.args = dict(A=A, D=D, L=L, p=p, n=n, lam=lam)
            out = f(core.MineralPhase(self.phase), core.MineralFabric(self.fabric), A, D, L, p, n, lam)
            return out, list(self.calls)

        p, n, lam = sym("p"), sym("n"), sym("lam")
        return E.explore(body, hyps=list(hyps) + param_hyps(p, n, lam), max_paths=max_paths)


def nat_grain(phase, fabric, A, D, L, p, n, lam):
    """Real per-grain solver (compiled) vs the published model; also reports exceptions."""
    import pydrex.core as c

    A, D, L = (np.array(x, dtype=float) for x in (A, D, L))
    try:
        dA, En = c._get_rotation_and_strain(c.MineralPhase(phase), c.MineralFabric(fabric), A, D, L, float(p), float(n), float(lam))
    except Exception as e:
        return dict(ok=False, exc=type(e).__name__, msg=str(e)[:200])
    finite = bool(np.all(np.isfinite(dA)) and np.isfinite(En))
    edA, eE = O.grain_rates(phase, fabric, A, D, L, p, n, lam)
    close = bool(np.allclose(dA, edA, rtol=1e-9, atol=1e-9) and np.isclose(En, eE, rtol=1e-9, atol=1e-12))
    return dict(ok=finite and close, finite=finite, matches_published=close, dA=np.asarray(dA).tolist(), E=float(En), expected_dA=np.asarray(edA).tolist(), expected_E=float(eE))


def replay_grain(phase, fabric, args, what="ok"):
    """replay(model) for obligations of the modular run: evaluate the *inputs* in the model (the lazily
    kept definitions are part of the refutation query, so the model is over A, D, L, p, n, lam)."""

    def replay(model):
        kw = dict(phase=phase, fabric=fabric,
                  A=E.model_array(model, args["A"]).tolist(), D=E.model_array(model, args["D"]).tolist(), L=E.model_array(model, args["L"]).tolist(),
                  p=E.model_value(model, args["p"].z), n=E.model_value(model, args["n"].z), lam=E.model_value(model, args["lam"].z))
        res = native.call("contracts.corelib", "nat_grain", kw)
        bad = not res.get(what, False) if what != "ok" else not res.get("ok", False)
        info = dict(checker="contracts.corelib:nat_grain", inputs=kw, observed=res,
                    what=f"real _get_rotation_and_strain: {'raised ' + res.get('exc', '') if 'exc' in res else ('non-finite' if not res.get('finite', True) else 'differs from the published model')}")
        return bad, info

    return replay


def random_orientation(rng):
    q = rng.normal(size=4)
    q /= np.linalg.norm(q)
    return O_quat(q)


def O_quat(q):
    a, b, c, d = q
    return np.array([[a * a + b * b - c * c - d * d, 2 * (b * c - a * d), 2 * (b * d + a * c)],
                     [2 * (b * c + a * d), a * a - b * b + c * c - d * d, 2 * (c * d - a * b)],
                     [2 * (b * d - a * c), 2 * (c * d + a * b), a * a - b * b - c * c + d * d]])


# ----------------------------------------------------------------------------- lifted run of derivatives (symbolic n_grains)
import ast
import inspect
import textwrap

from pv import larr as LA


def loop_rule_admissible(func):
    """AST side condition of the map/reduce rule: in every `for .. in range(..)` loop of `func`, no local
    assigned in the body is read after the loop or carried into the next iteration."""
    src = textwrap.dedent(inspect.getsource(getattr(func, "py_func", func)))
    tree = ast.parse(src)
    problems = []

    class V(ast.NodeVisitor):
        def visit_block(self, stmts):
            for k, st in enumerate(stmts):
                if isinstance(st, ast.For) and isinstance(st.iter, ast.Call) and getattr(st.iter.func, "id", "") == "range":
                    assigned = set()
                    for n in ast.walk(ast.Module(body=st.body, type_ignores=[])):
                        if isinstance(n, ast.Name) and isinstance(n.ctx, ast.Store):
                            assigned.add(n.id)
                    for n in ast.walk(st.target):
                        if isinstance(n, ast.Name):
                            assigned.add(n.id)
                    # carried: a name whose first occurrence in the body is a load
                    first = {}
                    for stmt in st.body:
                        for n in _ordered_names(stmt):
                            first.setdefault(n.id, type(n.ctx))
                    carried = {v for v in assigned if first.get(v) is ast.Load and v not in {t.id for t in ast.walk(st.target) if isinstance(t, ast.Name)}}
                    after = set()
                    for later in stmts[k + 1:]:
                        for n in ast.walk(later):
                            if isinstance(n, ast.Name) and isinstance(n.ctx, ast.Load):
                                after.add(n.id)
                    bad = (assigned & after) | carried
                    # names that are subscripted-assigned (arr[g] = ..) are Loads of arr, not Stores: fine
                    if bad:
                        problems.append((st.lineno, sorted(bad)))
                for fld in ("body", "orelse", "finalbody"):
                    sub = getattr(st, fld, None)
                    if isinstance(sub, list) and sub and isinstance(sub[0], ast.stmt):
                        self.visit_block(sub)
                if isinstance(st, ast.Match):
                    for c in st.cases:
                        self.visit_block(c.body)

    V().visit_block(tree.body[0].body)
    return problems


def _ordered_names(stmt):
    """Names of a statement in evaluation order (value before targets for assignments)."""
    if isinstance(stmt, (ast.Assign, ast.AugAssign, ast.AnnAssign)):
        val = stmt.value
        tg = stmt.targets if isinstance(stmt, ast.Assign) else [stmt.target]
        out = [n for n in ast.walk(val) if isinstance(n, ast.Name)] if val is not None else []
        if isinstance(stmt, ast.AugAssign):
            out += [ast.Name(id=n.id, ctx=ast.Load()) for n in ast.walk(stmt.target) if isinstance(n, ast.Name)]
        for t in tg:
            out += [n for n in ast.walk(t) if isinstance(n, ast.Name)]
        return out
    return [n for n in ast.walk(stmt) if isinstance(n, ast.Name)]


class DerivRun:
    """Real pydrex.core.derivatives with symbolic n_grains: orientations A_ij(g), fractions f(g) are
    uninterpreted per-grain data; the per-grain solver is a contract stub returning dA_ij(g), E(g)."""

    def __init__(self, core, regime, phase=0, fabric=0, suffix=""):
        self.core, self.regime, self.phase, self.fabric, self.sfx = core, regime, phase, fabric, suffix
        self.grain_calls = []

    def run(self):
        core = self.core
        sfx = self.sfx
        n = S.SymInt(z3.Int("n"))
        self.n = n
        self.sigma = LA.Sigma(n)
        LA.Sigma.cur = self.sigma
        self.rule = LA.LoopRule()
        LA.LoopRule.cur = self.rule
        self.O = LA.larr("A" + sfx, n, (3, 3))
        self.f = LA.larr("f" + sfx, n, ())
        self.L = symarr("L" + sfx, (3, 3))
        self.D = symmat_sym("D" + sfx, 3)
        self.W = symarr("W" + sfx, (3, 3))
        self.p, self.nn, self.lam, self.M, self.phi = (sym(k + sfx) for k in ("p", "n_", "lam", "M", "phi"))
        self.snap = [np.array(a, dtype=object).copy() for a in (self.L, self.D, self.W)]  # for the frame condition
        me = self

        def stub_grain(phase, fabric, orientation, D, L, p, nn, lam):
            g = me.rule.var
            if g is None:
                raise E.Unsupported("_get_rotation_and_strain called outside the grain loop")
            me.grain_calls.append(dict(g=g, phase=phase, fabric=fabric, orientation=orientation, D=D, L=L, p=p, n=nn, lam=lam))
            return LA.uf("dA" + sfx, (3, 3))(g.z), LA.uf("E" + sfx)(g.z)

        shim = LA.NPLift()
        g_ = E.rebind_module(core, overrides={"_get_rotation_and_strain": stub_grain, "range": LA.sym_range}, np_shim=shim)
        f = g_["derivatives"]
        return f(self.regime, core.MineralPhase(self.phase), core.MineralFabric(self.fabric), n, self.O, self.f, self.D, self.L, self.W,
                 self.p, self.nn, self.lam, self.M, self.phi)


def concretisations(args):
    """Concrete orientations that turn the lazily kept definitions into linear constraints on D and L
    (used only to search for counterexamples of modular obligations; every hit is replayed natively)."""
    A = args["A"]
    mats = [np.eye(3), np.array([[0, 1, 0], [0, 0, 1], [1, 0, 0.0]]), np.array([[0, 0, 1], [1, 0, 0], [0, 1, 0.0]]),
            np.array([[0.6, -0.8, 0], [0.8, 0.6, 0], [0, 0, 1.0]]), np.array([[1, 0, 0], [0, 0.6, -0.8], [0, 0.8, 0.6]]),
            O_quat(np.array([0.5, 0.5, 0.5, 0.5])), O_quat(np.array([1, 2, 3, 4.0]) / np.sqrt(30.0))]
    out = []
    for M in mats:
        out.append([S.zz(A[i, j]) == S.R(float(M[i, j])) for i in range(3) for j in range(3)])
    return out
