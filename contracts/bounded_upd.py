"""Driver for the native scenario stand-ins of the update cone."""
from pv import native


def run_bounded(run, clauses, label, function, per_job=None, njobs=14):
    per_job = per_job or (3 if run.tier == "quick" else 30 * run.tmul)
    jobs = [dict(seed=run.seed, start=k * per_job, count=per_job, clauses=list(clauses)) for k in range(njobs)]
    res, errs = native.pmap("contracts.scenarios", "run_scenarios", jobs)
    run.worker_errors(errs, len(jobs))
    ev = sum(r["evaluations"] for r in res if r and "_error" not in r)
    fails = [f for r in res if r and "_error" not in r for f in r["failures"]]
    if errs:
        run.note(f"bounded stand-in: {len(errs)} job(s) did not finish (time limit or worker error) and are not counted: {errs[:2]}")
    run.bounded_result(label, function,
                       f"{ev} generated scenarios (6 phase/fabric x regimes 4/6 x 6 flow families x 4 textures x 3 volume laws x partitions 1/3/10 x parameter corners, n_grains in 2/16/40), real LSODA, compiled solver",
                       ev, fails, ev)
