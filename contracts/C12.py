"""C12 — elastic symmetry decomposition is correct and frame-independent.

Proved from the real code: K and G are the isotropic (Voigt) invariants of any symmetric input, the isotropic vector is the
orthogonal projection of the Voigt vector (so percent anisotropy = 100 |X - X_iso| / |X| in [0, 100]); lemma over the real
projectors of pydrex.tensors: in any orthonormal frame the five class components are mutually orthogonal, hence the squared
percentages add up to the squared percent anisotropy.  Which frame the SCCS search selects depends on LAPACK's eigenvectors and
on a discrete pairing search: frame independence, co-rotation of the hexagonal axis and vanishing monoclinic/triclinic parts of
orthorhombic tensors are bounded stand-ins.  Level claimed: other.
"""
import itertools

import numpy as np
import z3

from contracts import C11
from pv import engine as E
from pv import native
from pv import sym as S
from pv.facets import prove_entries
from pv.sym import Sym, sym, symarr, symmat_sym
from pv.util import real_module, sumsq

FN = "pydrex.diagnostics.elasticity_components"


class _Stop(Exception):
    pass


def run(run):
    run.assume("S-REAL", "S-PY", "S-NUMPY", "A-EIG", "A-QUAT")
    run.level_override = "other"
    for f in (head_facets, pythagoras_lemma):
        try:
            f(run)
        except E.UNSUPPORTED_EXC as e:
            run.undecided(f.__name__, FN, f"unsupported construct: {e}")
        except (AttributeError, TypeError, KeyError, IndexError) as e:
            import traceback

            run.undecided(f.__name__, FN, f"not interpretable: {type(e).__name__}: {e} @ {traceback.format_exc().splitlines()[-3].strip()[:100]}")
        finally:
            E.Ctx.cur = None
    bounded(run)


def head_facets(run):
    D = real_module("pydrex.diagnostics")
    T = real_module("pydrex.tensors")
    gT = E.rebind_module(T)

    class TP:
        def __getattr__(s, k):
            return gT[k]

    M = symmat_sym("c", 6)

    def body():
        created, norms = [], []

        class Shim(S.NPShim):
            def empty(self, shape, *a, **k):
                arr = super().empty(shape, *a, **k)
                created.append(arr)
                return arr

        class LAStub:
            @staticmethod
            def norm(x, *a, **k):
                r = S.s_sqrt(sumsq(x))
                norms.append((x, r))
                return r

            @staticmethod
            def eigh(m, *a, **k):
                raise _Stop()

        g = dict(D.__dict__)
        g.update(np=Shim(), la=LAStub, _tensors=TP())
        f = E.rebind_function(D.elasticity_components, g)
        try:
            f(np.array([np.asarray(M, dtype=object)], dtype=object).view(S.SymArray))
            return None
        except _Stop:
            return created, norms

    ex = E.explore(body, hyps=[], max_paths=16)
    run.paths += len(ex.paths)
    if not ex.complete or not ex.paths or ex.unsupported:
        run.undecided("head", FN, "exploration incomplete: " + "; ".join(ex.unsupported[:2]))
        return
    rp = _rp_head(M)
    for pi, p in enumerate(ex.paths):
        pre = "" if len(ex.paths) == 1 else f"path{pi}/"
        H = list(ex.ctx.hyps) + list(p.pc)
        if p.exc is not None:
            run.prove(f"{pre}head does not raise", FN, H, z3.BoolVal(False), replay=rp, detail=f"{type(p.exc).__name__}: {p.exc}")
            continue
        if p.value is None:
            run.undecided(f"{pre}head", FN, "the eigen-decomposition of the contractions was never requested")
            continue
        created, norms = p.value
        if len(created) < 3:
            run.undecided(f"{pre}head", FN, "output arrays not found")
            continue
        K, G_, pa = created[0][0], created[1][0], created[2][0]
        C = C11.spec_v2t(M)
        iijj = sum(C[i, i, j, j] for i in range(3) for j in range(3))
        ijij = sum(C[i, j, i, j] for i in range(3) for j in range(3))
        run.prove(f"{pre}bulk modulus == C_iijj / 9 (Voigt)", FN, H, E.clear_formula(S.zz(K) * 9 == S.zz(iijj)), replay=rp)
        run.prove(f"{pre}shear modulus == (C_ijij - C_iijj / 3) / 10 (Voigt)", FN, H, E.clear_formula(S.zz(G_) * 10 == S.zz(ijij) - S.zz(iijj) / 3), replay=rp)
        if len(norms) < 2:
            run.undecided(f"{pre}percent anisotropy", FN, "norms not computed through scipy.linalg.norm")
            continue
        diff, nd = norms[0]
        X, nx = norms[1]
        iso = S.ew(lambda a, b: a - b, X, diff)
        Xs = C11.spec_m2v(M)
        prove_entries(run, f"{pre}the vector compared with the isotropic one is the 21-component Voigt vector of the input", FN, H, X, Xs, replay=rp)
        kk, gg = S.zz(K), S.zz(G_)
        r2 = S.SQRT2
        want_iso = [kk + 4 * gg / 3] * 3 + [r2 * (kk - 2 * gg / 3)] * 3 + [2 * gg] * 3 + [z3.RealVal(0)] * 12
        run.prove(f"{pre}isotropic vector == (K+4G/3 x3, sqrt2 (K-2G/3) x3, 2G x3, 0 x12)", FN, H, z3.And(*[E.clear_formula(S.zz(a) == b) for a, b in zip(iso, want_iso)]), replay=rp)
        dot = S._sum(S.ew(lambda a, b: a * b, diff, iso))
        run.prove(f"{pre}X - X_iso is orthogonal to X_iso (the isotropic part is the orthogonal projection)", FN, H, E.clear_formula(S.zz(dot) == 0), replay=rp)
        run.prove(f"{pre}percent anisotropy == 100 |X - X_iso| / |X|", FN, H + [S.zz(nx) > 0], E.clear_formula(S.zz(pa) * S.zz(nx) == 100 * S.zz(nd)), replay=rp)
        run.prove(f"{pre}percent anisotropy in [0, 100] (Pythagoras: |X - X_iso|^2 = |X|^2 - |X_iso|^2)", FN, H + [S.zz(nx) > 0, S.zz(dot) == 0, S.zz(sumsq(X)) == S.zz(sumsq(diff)) + S.zz(sumsq(iso)) + 2 * S.zz(dot), S.zz(sumsq(iso)) >= 0],
                  E.clear_formula(z3.And(S.zz(pa) >= 0, S.zz(pa) <= 100)), replay=rp)
        run.prove(f"{pre}lemma: |X|^2 == |X - X_iso|^2 + |X_iso|^2 + 2 <X - X_iso, X_iso>", FN, H, S.zz(sumsq(X)) == S.zz(sumsq(diff)) + S.zz(sumsq(iso)) + 2 * S.zz(dot), structural=True)


def _rp_head(M):
    def replay(model):
        kw = dict(M=E.model_array(model, M).tolist())
        res = native.call("contracts.C12", "nat_head", kw)
        return (not res["ok"]), dict(checker="contracts.C12:nat_head", inputs=kw, observed=res, what=res.get("what", ""))

    return replay


def nat_head(M):
    import pydrex
    from pydrex import tensors as T

    M = np.array(M, float)
    if not np.any(M):
        M = np.eye(6)
    try:
        out = pydrex.elasticity_components(np.array([M]))
    except Exception as e:
        return dict(ok=False, what=f"raised {type(e).__name__}: {e}")
    C = T.voigt_to_elastic_tensor(M)
    K = np.einsum("iijj", C) / 9
    G = (np.einsum("ijij", C) - np.einsum("iijj", C) / 3) / 10
    X = T.voigt_matrix_to_vector(M)
    iso = np.array([K + 4 * G / 3] * 3 + [np.sqrt(2) * (K - 2 * G / 3)] * 3 + [2 * G] * 3 + [0] * 12)
    pa = 100 * np.linalg.norm(X - iso) / np.linalg.norm(X)
    msgs = []
    sc = max(1.0, abs(K), abs(G))
    if abs(out["bulk_modulus"][0] - K) > 1e-9 * sc:
        msgs.append("bulk modulus is not the Voigt invariant")
    if abs(out["shear_modulus"][0] - G) > 1e-9 * sc:
        msgs.append("shear modulus is not the Voigt invariant")
    if abs(out["percent_anisotropy"][0] - pa) > 1e-7:
        msgs.append("percent anisotropy is not the norm distance to the isotropic tensor")
    return dict(ok=not msgs, what="; ".join(msgs))


def pythagoras_lemma(run):
    T = real_module("pydrex.tensors")
    fn = "pydrex.tensors (class projectors)"
    g = E.rebind_module(T)
    c = E.Ctx([])
    E.Ctx.cur = c
    c.reset_path([])
    x = symarr("x", (21,))
    K, G_ = sym("K"), sym("G")
    r2 = Sym(S.SQRT2)
    iso = S.SymArray(np.array([K + 4 * G_ / 3] * 3 + [r2 * (K - 2 * G_ / 3)] * 3 + [2 * G_] * 3 + [0] * 12, dtype=object))
    mono, ortho, tetr, hexa = (g[k] for k in ("mono_project", "ortho_project", "tetr_project", "hex_project"))
    # the decomposition exactly as elasticity_components forms it
    m1 = mono(x)
    tric = x - m1
    o1 = ortho(m1)
    t1 = tetr(o1)
    h1 = hexa(t1)
    comps = {"triclinic": tric, "monoclinic": m1 - o1, "orthorhombic": o1 - t1, "tetragonal": t1 - h1, "hexagonal": h1 - iso}
    H = list(c.hyps) + list(c.pc)
    # hypothesis: the isotropic vector is the orthogonal projection of x onto the isotropic subspace (facet of the head): <x - iso, iso> = 0
    # and the isotropic vector lies in every class subspace
    for nm, P in (("mono", mono), ("ortho", ortho), ("tetr", tetr), ("hex", hexa)):
        prove_entries(run, f"lemma/{nm}_project fixes the isotropic vector", fn, H, P(iso), iso)
    dotiso = S._sum(S.ew(lambda a, b: a * b, x - iso, iso))
    names = list(comps)
    for a, b in itertools.combinations(names, 2):
        dot = S._sum(S.ew(lambda u, v: u * v, comps[a], comps[b]))
        hyp = H + ([S.zz(dotiso) == 0] if "hexagonal" in (a, b) else [])
        # the hexagonal component contains -iso: orthogonality to the higher-class components uses <P x - x, iso> = 0 (self-adjoint projectors fixing iso)
        run.prove(f"lemma/{a} and {b} components are orthogonal", fn, hyp, E.clear_formula(S.zz(dot) == 0), structural=True, timeout=max(run.per_obl_timeout, 30))
    tot = 0
    for v in comps.values():
        tot = tot + sumsq(v)
    cross = 0
    run.prove("lemma/sum of the five components == x - x_iso (so the squared percentages add up to the squared percent anisotropy)", fn, H,
              z3.And(*[E.clear_formula(S.zz(sum((comps[n_][k] for n_ in names), 0)) == S.zz(x[k] - iso[k])) for k in range(21)]), structural=True)


def bounded(run):
    cnt = 48 if run.tier == "quick" else 600 * run.tmul
    jobs = [dict(seed=run.seed * 47 + k, count=cnt // 8) for k in range(8)]
    res, errs = native.pmap("contracts.C12", "nat_sweep", jobs)
    run.worker_errors(errs, len(jobs))
    ev = sum(r["evaluations"] for r in res if r and "_error" not in r)
    fails = [f for r in res if r and "_error" not in r for f in r["failures"]]
    run.bounded_result("real elasticity_components: K, G, percent anisotropy; frame independence of all percentages and co-rotation (up to sign) of the unit hexagonal axis; vanishing monoclinic/triclinic parts and the sum of squares for rotated orthorhombic tensors (built-in olivine/enstatite, random positive-definite orthorhombic with either ordering of the principal axes, small tilts off the lab axes)",
                       FN, f"{ev} tensors x 3 rotations", ev, fails, ev)


def nat_sweep(seed, count):
    import pydrex
    from pydrex import minerals as Mn, tensors as T
    from scipy.spatial.transform import Rotation as R

    rng = np.random.default_rng(seed)
    st = Mn.StiffnessTensors()
    fails, ev = [], 0
    for it in range(count):
        ev += 1
        msgs = []
        try:
            kind = it % 4
            if kind == 0:
                C0 = np.array(st.olivine)
            elif kind == 1:
                C0 = np.array(st.enstatite)
            else:
                # random positive-definite orthorhombic tensor; kind 3: dilatational and deviatoric tensors order the axes differently
                d = np.sort(rng.uniform(150, 350, 3))[::-1]
                off = rng.uniform(40, 90, 3)
                sh = np.sort(rng.uniform(50, 100, 3))
                if kind == 3:
                    sh = sh[::-1] * np.array([1.0, 1.0, 2.2])
                C0 = np.zeros((6, 6))
                C0[0, 0], C0[1, 1], C0[2, 2] = d
                C0[0, 1] = C0[1, 0] = off[0]; C0[0, 2] = C0[2, 0] = off[1]; C0[1, 2] = C0[2, 1] = off[2]
                C0[3, 3], C0[4, 4], C0[5, 5] = sh
                if np.linalg.eigvalsh(C0).min() <= 1:
                    C0 += (2 - np.linalg.eigvalsh(C0).min()) * np.eye(6)
            # well-conditioned symmetry axes: the two contractions need separated eigenvalues
            dd, vv = T.voigt_decompose(C0)
            if min(np.diff(np.linalg.eigvalsh(dd)).min(), np.diff(np.linalg.eigvalsh(vv)).min()) < 5.0:
                continue
            base = pydrex.elasticity_components(np.array([C0]))
            base_copy = {k_: np.array(v_, copy=True) for k_, v_ in base.items()}
            keys = ["percent_anisotropy", "percent_hexagonal", "percent_tetragonal", "percent_orthorhombic", "percent_monoclinic", "percent_triclinic"]
            p0 = np.array([base[k][0] for k in keys])
            if not np.all(np.isfinite(p0)):
                msgs.append("non-finite percentages in the unrotated frame")
            if abs(base["percent_monoclinic"][0]) > 1e-6 or abs(base["percent_triclinic"][0]) > 1e-6:
                msgs.append(f"orthorhombic tensor has monoclinic/triclinic parts {base['percent_monoclinic'][0]:.2e}/{base['percent_triclinic'][0]:.2e}")
            if abs(np.sum(p0[1:] ** 2) - p0[0] ** 2) > 1e-6 * max(1, p0[0] ** 2):
                msgs.append("squared class percentages do not add up to the squared percent anisotropy")
            ax0 = base["hexagonal_axis"][0]
            C4 = T.voigt_to_elastic_tensor(C0)
            for r_ in range(3):
                if r_ == 0:
                    Q = R.random(random_state=int(rng.integers(1 << 30))).as_matrix()
                elif r_ == 1:
                    Q = R.from_rotvec(np.deg2rad(rng.uniform(3, 7)) * np.eye(3)[rng.integers(3)]).as_matrix()  # small tilt about a lab axis
                else:
                    Q = R.from_rotvec(np.deg2rad(rng.uniform(0.5, 9.5)) * (lambda v: v / np.linalg.norm(v))(rng.normal(size=3))).as_matrix()
                Cq = T.elastic_tensor_to_voigt(T.rotate(C4, Q))
                o = pydrex.elasticity_components(np.array([Cq]))
                pq = np.array([o[k][0] for k in keys])
                if not np.allclose(pq, p0, atol=1e-5):
                    msgs.append(f"percentages change under a frame rotation (rotation class {r_}): {np.abs(pq - p0).max():.2e}")
                    break
                ax = o["hexagonal_axis"][0]
                if abs(np.linalg.norm(ax) - 1) > 1e-9:
                    msgs.append("hexagonal axis is not a unit vector")
                    break
                if abs(abs(ax @ (Q @ ax0)) - 1) > 1e-5:
                    msgs.append(f"hexagonal axis does not co-rotate (rotation class {r_})")
                    break
                if abs(o["bulk_modulus"][0] - base["bulk_modulus"][0]) > 1e-8 * base["bulk_modulus"][0] or abs(o["shear_modulus"][0] - base["shear_modulus"][0]) > 1e-8 * base["shear_modulus"][0]:
                    msgs.append("moduli change under rotation")
                    break
            # the result of the first call is the caller's: later calls do not change it
            if any(not np.array_equal(base[k_], base_copy[k_], equal_nan=True) for k_ in base_copy):
                msgs.append("the result returned by an earlier call was modified by later calls (shared output arrays)")
            # units: the percentages and the axis do not depend on the unit of the stiffness (GPa, Pa, 1e-12 GPa); moduli scale with it
            for unit in (1e9, 1e-12):
                o = pydrex.elasticity_components(np.array([Cq * unit]))
                pq_ = np.array([o[k][0] for k in keys])
                if not np.allclose(pq_, pq, atol=1e-5) or abs(o["bulk_modulus"][0] - unit * base["bulk_modulus"][0]) > 1e-8 * unit * base["bulk_modulus"][0] or abs(abs(o["hexagonal_axis"][0] @ ax) - 1) > 1e-5:
                    msgs.append(f"percentages / axis / moduli do not scale with the unit of the stiffness (factor {unit:g}): {np.abs(pq_ - pq).max():.2e}")
                    break
            h = nat_head(C0.tolist())
            if not h["ok"]:
                msgs.append(h["what"])
        except Exception as e:
            msgs.append(f"raised {type(e).__name__}: {e}")
        if msgs:
            fails.append(dict(case=f"{seed}.{it}", checker="contracts.C12:nat_case", inputs=dict(seed=int(seed), it=it, count=count), what="; ".join(msgs[:3])))
    return dict(evaluations=ev, failures=fails[:5])


def nat_case(seed, it, count):
    r = nat_sweep(seed, count)
    hit = [f for f in r["failures"] if f["case"] == f"{seed}.{it}"]
    return dict(ok=not hit, failures=hit)
