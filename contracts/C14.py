"""C14 — the M-index is a frame-independent texture-strength scalar in [0, 1].

Exact / deductive facets on the real code: maximum-misorientation table, quat_product against the Hamilton product,
symmetry operator sets (unit quaternions; closure under the true Hamilton product), misorientation_angles against
min_ij 2 acos|q1_i . q2_j| (symbolic), the final index formula, and the batched variant under the pool contract (A-POOL).
Range, invariances, limits for uniform / single-orientation textures and the normalisation of the theoretical density are
statistical or quadrature statements: bounded stand-in.  The pinned tree violates several clauses; each is a recorded known
finding with a fixed witness (known_findings.jsonl), re-measured on every run.  Level claimed: other.
"""
import itertools
import json

import numpy as np
import z3

from pv import engine as E
from pv import native
from pv import sym as S
from pv.facets import prove_entries
from pv.sym import Sym, sym, symarr
from pv.util import real_module

SYSTEMS = ["triclinic", "monoclinic", "orthorhombic", "rhombohedral", "tetragonal", "hexagonal"]


def run(run):
    run.assume("S-REAL", "S-PY", "S-NUMPY", "S-NUMBA", "A-POOL", "A-SCIPY-Q")
    run.level_override = "other"
    for f in (table_facets, quat_facets, operator_facets, angles_facets, hist_glue, index_formula, batched_facets):
        try:
            f(run)
        except E.UNSUPPORTED_EXC as e:
            run.undecided(f.__name__, "pydrex.diagnostics", f"unsupported construct: {e}")
        except (AttributeError, TypeError, KeyError, IndexError) as e:
            import traceback

            run.undecided(f.__name__, "pydrex.diagnostics", f"not interpretable: {type(e).__name__}: {e} @ {traceback.format_exc().splitlines()[-3].strip()[:100]}")
        finally:
            E.Ctx.cur = None
    bounded(run)


def table_facets(run):
    ST = real_module("pydrex.stats")
    GM = real_module("pydrex.geometry")
    want = {"orthorhombic": 120, "rhombohedral": 120, "tetragonal": 90, "hexagonal": 90, "triclinic": 180, "monoclinic": 180}
    ok = set(s.name for s in GM.LatticeSystem) == set(want) and all(ST._max_misorientation(s) == want[s.name] for s in GM.LatticeSystem)
    for bad in (None, "orthorhombic", 3, (2, 4)):
        try:
            ST._max_misorientation(bad)
            ok = False
        except ValueError:
            pass
        except Exception:
            ok = False
    run.exact("_max_misorientation: 120 (orthorhombic, rhombohedral), 90 (tetragonal, hexagonal), 180 (triclinic, monoclinic); anything else raises ValueError [exhaustive]", "pydrex.stats._max_misorientation", ok, "")


def hamilton(q1, q2):
    v1, w1, v2, w2 = q1[:3], q1[3], q2[:3], q2[3]
    cr = [v1[1] * v2[2] - v1[2] * v2[1], v1[2] * v2[0] - v1[0] * v2[2], v1[0] * v2[1] - v1[1] * v2[0]]
    return [w1 * v2[k] + w2 * v1[k] + cr[k] for k in range(3)] + [w1 * w2 - (v1[0] * v2[0] + v1[1] * v2[1] + v1[2] * v2[2])]


def quat_facets(run):
    U = real_module("pydrex.utils")
    fn = "pydrex.utils.quat_product"
    g = E.rebind_module(U)
    c = E.Ctx([])
    E.Ctx.cur = c
    c.reset_path([])
    q1, q2 = symarr("p", (4,)), symarr("q", (4,))
    out = g["quat_product"](q1, q2)
    out = np.array(list(out), dtype=object)
    rp = _rp_quat(q1, q2)
    prove_entries(run, "quat_product == Hamilton product (scalar-last)", fn, list(c.hyps), out, np.array(hamilton(q1, q2), dtype=object), replay=rp)
    nocross = [q1[3] * q2[k] + q2[3] * q1[k] for k in range(3)] + [q1[3] * q2[3] - (q1[0] * q2[0] + q1[1] * q2[1] + q1[2] * q2[2])]
    prove_entries(run, "quat_product/known-form: the Hamilton product without its cross term v1 x v2, nothing else deviates", fn, list(c.hyps), out, np.array(nocross, dtype=object))
    E.Ctx.cur = None


def _rp_quat(q1, q2):
    def replay(model):
        kw = dict(q1=E.model_array(model, q1).tolist(), q2=E.model_array(model, q2).tolist())
        res = native.call("contracts.C14", "nat_quat", kw)
        return (not res["ok"]), dict(checker="contracts.C14:nat_quat", inputs=kw, observed=res, what="quat_product differs from the Hamilton product")

    return replay


def nat_quat(q1, q2):
    import pydrex.utils as U

    q1, q2 = np.array(q1, float), np.array(q2, float)
    got = np.array(U.quat_product(q1, q2), float)
    want = np.array(hamilton(q1, q2), float)
    return dict(ok=bool(np.allclose(got, want, atol=1e-12 * max(1, np.abs(want).max()))), got=got.tolist(), want=want.tolist())


def operator_facets(run):
    GM = real_module("pydrex.geometry")
    fn = "pydrex.geometry.symmetry_operations"
    for s in GM.LatticeSystem:
        ops = GM.symmetry_operations(s)
        rots = [np.asarray(o, float) for o in ops if np.shape(o) == (4,)]
        other = [o for o in ops if np.shape(o) != (4,)]
        unit = all(abs(np.linalg.norm(o) - 1) < 1e-12 for o in rots) and any(np.allclose(np.abs(o), [0, 0, 0, 1]) for o in rots)
        run.exact(f"symmetry_operations[{s.name}]: unit quaternions including the identity", fn, unit, f"{len(rots)} rotations, {len(other)} other operators")
        missing = 0
        for a, b in itertools.product(rots, rots):
            p = np.array(hamilton(a, b), float)
            if not any(np.allclose(p, c_, atol=1e-9) or np.allclose(p, -c_, atol=1e-9) for c_ in rots):
                missing += 1
        run.exact(f"symmetry_operations[{s.name}]: the rotations form a group (closed under the Hamilton product up to sign)", fn, missing == 0, f"{missing} of {len(rots) ** 2} products are not in the set",
                  info=None if missing == 0 else dict(checker="contracts.C14:nat_closure", inputs=dict(system=s.name)))
        proper = all(np.shape(o) == (4,) for o in ops)
        run.exact(f"symmetry_operations[{s.name}]: every operator is a proper rotation acting by left multiplication", fn, proper, f"{len(other)} operators are 4x4 sign matrices (conjugations), not quaternions",
                  info=None if proper else dict(checker="contracts.C14:nat_closure", inputs=dict(system=s.name)))
    try:
        GM.symmetry_operations("cubic")
        okv = False
    except ValueError:
        okv = True
    run.exact("symmetry_operations: unsupported system raises ValueError", fn, okv, "")


def nat_closure(system):
    import pydrex.geometry as GM

    s = getattr(GM.LatticeSystem, system)
    ops = GM.symmetry_operations(s)
    rots = [np.asarray(o, float) for o in ops if np.shape(o) == (4,)]
    missing = sum(1 for a, b in itertools.product(rots, rots) if not any(np.allclose(np.array(hamilton(a, b), float), c_, atol=1e-9) or np.allclose(np.array(hamilton(a, b), float), -c_, atol=1e-9) for c_ in rots))
    return dict(ok=missing == 0 and len(rots) == len(ops), missing_products=missing, non_quaternion_operators=len(ops) - len(rots))


def angles_facets(run):
    GM = real_module("pydrex.geometry")
    fn = "pydrex.geometry.misorientation_angles"
    g = E.rebind_module(GM)
    A, B = 2, 2

    def body():
        return g["misorientation_angles"](symarr("a", (1, A, 4)), symarr("b", (1, B, 4)))

    ex = E.explore(body, hyps=[], max_paths=64)
    run.paths += len(ex.paths)
    if not ex.complete or not ex.paths:
        run.undecided("misorientation_angles", fn, "exploration incomplete: " + "; ".join(ex.unsupported[:2]))
        return
    a, b = symarr("a", (1, A, 4)), symarr("b", (1, B, 4))
    E.Ctx.cur = E.Ctx([])  # scratch context for building the expected terms (division by the constant PI)
    E.Ctx.cur.reset_path([])
    for pi, p in enumerate(ex.paths):
        if p.exc is not None:
            run.undecided(f"misorientation_angles/path{pi}", fn, f"{type(p.exc).__name__}: {p.exc}")
            continue
        out = np.asarray(p.value, dtype=object)
        H = list(ex.ctx.hyps) + list(p.pc)
        # expected: min over (i, j) of 2*deg(acos(|clip(a_i . b_j)|)); acos is decreasing, so compare through the ACOS atoms
        cands = []
        for i in range(A):
            for j in range(B):
                d = S._sum(S.ew(lambda x, y: x * y, a[0, i], b[0, j]))
                cl = S.s_clip(d, -1.0, 1.0)
                cands.append(2 * (Sym(S.ACOS(S.zz(abs(cl)))) * 180 / Sym(S.PI)))
        o = S.zz(out[0])
        run.prove(f"misorientation_angles/path{pi}: result is one of the pairwise angles 2 acos|q1_i . q2_j| and not larger than any of them", fn, H,
                  z3.And(z3.Or(*[o == S.zz(c_) for c_ in cands]), *[o <= S.zz(c_) for c_ in cands]), structural=True)
    try:
        GM.misorientation_angles(np.zeros((2, 1, 4)), np.zeros((3, 1, 4)))
        okv = False
    except ValueError:
        okv = True
    run.exact("misorientation_angles: unequal leading lengths raise ValueError", fn, okv, "")


def hist_glue(run):
    """misorientation_hist under the contracts of its callees: ONE density histogram with theta_max unit bins on [0, theta_max]
    of misorientation_angles(q1, q2), where the rows of (q1, q2) are exactly the unordered grain pairs, each with every symmetry
    operator applied to both members.  Another call structure (several histogram calls, ...) is undecided, not a violation:
    the bounded stand-in compares values against the histogram of all pair angles instead."""
    import itertools

    ST = real_module("pydrex.stats")
    GM = real_module("pydrex.geometry")
    UT = real_module("pydrex.utils")
    from scipy.spatial.transform import Rotation as R

    fn = "pydrex.stats.misorientation_hist"
    for system in GM.LatticeSystem:
        for N in (2, 5):
            O = R.random(N, random_state=11 + N).as_matrix()
            ang_calls, hist_calls = [], []
            sentinel = object()

            class GeoProxy:
                def __getattr__(s_, k):
                    return getattr(GM, k)

                @staticmethod
                def misorientation_angles(q1, q2):
                    ang_calls.append((np.array(q1, dtype=float), np.array(q2, dtype=float)))
                    return np.arange(len(q1), dtype=float) + 1000.0 * len(ang_calls)

            class NPProxy:
                def __getattr__(s_, k):
                    return getattr(np, k)

                @staticmethod
                def histogram(data, bins=10, range=None, density=None, weights=None):
                    hist_calls.append((np.array(data), bins, range, density, weights))
                    return sentinel

            g = dict(ST.__dict__)
            g.update(np=NPProxy(), _geo=GeoProxy())
            f = E.rebind_function(ST.misorientation_hist, g)
            out = f(O, system)
            tag = f"misorientation_hist[{system.name}, {N} grains]"
            if len(hist_calls) != 1 or len(ang_calls) != 1 or out is not sentinel:
                run.undecided(tag, fn, f"call structure differs from the contract's ({len(ang_calls)} angle evaluations, {len(hist_calls)} histograms): values are compared in the bounded stand-in")
                continue
            data, bins, rng_, density, weights = hist_calls[0]
            th = ST._max_misorientation(system)
            ok_h = np.array_equal(data, np.arange(len(ang_calls[0][0]), dtype=float) + 1000.0) and bins == th and tuple(rng_) == (0, th) and density is True and weights is None
            q = R.from_matrix(O.copy()).as_quat()
            ops = GM.symmetry_operations(system)
            want = []
            for i, j in itertools.combinations(range(N), 2):
                rows = []
                for qs in ops:
                    if qs.shape == (4, 4):
                        rows.append((qs @ q[i], qs @ q[j]))
                    else:
                        rows.append((UT.quat_product(qs, q[i]), UT.quat_product(qs, q[j])))
                want.append(rows)
            q1, q2 = ang_calls[0]
            ok_p = q1.shape == (len(want), len(ops), 4) and q2.shape == q1.shape
            if ok_p:
                used = set()
                for k in range(len(want)):
                    hit = [w for w in range(len(want)) if w not in used and (
                        (np.allclose(q1[k], [r[0] for r in want[w]], atol=1e-6) and np.allclose(q2[k], [r[1] for r in want[w]], atol=1e-6))
                        or (np.allclose(q1[k], [r[1] for r in want[w]], atol=1e-6) and np.allclose(q2[k], [r[0] for r in want[w]], atol=1e-6)))]
                    if not hit:
                        ok_p = False
                        break
                    used.add(hit[0])
            run.exact(f"{tag}: one density histogram, theta_max unit bins on [0, theta_max], of the angles of the pair arrays", fn, bool(ok_h), f"bins={bins} range={rng_} density={density}")
            run.exact(f"{tag}: the pair arrays hold every unordered grain pair once, every symmetry operator applied to both members", fn, bool(ok_p), f"{q1.shape[0]} rows for {len(want)} pairs x {len(ops)} operators")


def index_formula(run):
    D = real_module("pydrex.diagnostics")
    fn = "pydrex.diagnostics.misorientation_index"
    nb = 5
    obs = symarr("obs", (nb,))
    th = [sym(f"th{k}") for k in range(nb)]
    edges = np.arange(nb + 1) * 7.0
    seen = {}

    class StatsStub:
        @staticmethod
        def _max_misorientation(system):
            seen["sys0"] = system
            return 35

        @staticmethod
        def misorientation_hist(o, system, bins):
            seen["hist"] = (o, system, bins)
            return obs, edges

        @staticmethod
        def misorientations_random(lo, hi, system):
            k = int(round(lo / 7.0))
            seen.setdefault("rand", []).append((lo, hi, system))
            return th[k]

    c = E.Ctx([])
    E.Ctx.cur = c
    c.reset_path([])
    g = dict(D.__dict__)
    g.update(np=S.NPShim(), _stats=StatsStub)
    f = E.rebind_function(D.misorientation_index, g)
    O, sysm = object(), object()
    out = f(O, sysm, 11)
    want = 0
    for k in range(nb):
        want = want + abs(th[k] - obs[k])
    want = want * (35 / (2 * nb))
    run.prove("misorientation_index == theta_max / (2 n_bins) * sum_b |theory_b - observed_b|", fn, list(c.hyps) + list(c.pc), E.clear_formula(S.zz(out) == S.zz(want)), structural=True)
    okw = seen.get("hist", (None,))[0] is O and seen["hist"][1] is sysm and seen["hist"][2] == 11 and seen.get("sys0") is sysm \
        and [(lo, hi) for lo, hi, _ in seen.get("rand", [])] == [(edges[k], edges[k + 1]) for k in range(nb)] and all(s_ is sysm for _, _, s_ in seen["rand"])
    run.exact("misorientation_index: histogram of the given orientations/system/bins; theory evaluated on the histogram's own bin edges for the same system", fn, okw, "")
    E.Ctx.cur = None


def batched_facets(run):
    D = real_module("pydrex.diagnostics")
    fn = "pydrex.diagnostics.misorientation_indices"
    if getattr(D, "HAS_RAY", False):
        run.undecided("misorientation_indices", fn, "Ray is installed: the Ray branch is outside the contract")
        return
    calls = []

    def idx_stub(o, system=None, bins=None):
        calls.append((o, system, bins))
        return float(o[0]) * 2 + 1

    pools = []

    class PoolStub:
        def __init__(s, processes=None):
            pools.append(processes)

        def __enter__(s):
            return s

        def __exit__(s, *a):
            return False

        def imap(s, f, it):  # A-POOL: results in input order
            for x in it:
                yield f(x)

    g = dict(D.__dict__)
    g.update(misorientation_index=idx_stub, Pool=PoolStub)
    f = E.rebind_function(D.misorientation_indices, g)
    ok = True
    for n in (1, 2, 7):
        stack = np.arange(n * 3, dtype=float).reshape(n, 3)
        want = stack[:, 0] * 2 + 1
        for ncpus in (None, 1, 3, 16):
            pools.clear(); calls.clear()
            out = f(stack, "SYS", 9, ncpus=ncpus)
            ok = ok and np.array_equal(out, want) and len(pools) == 1 and (ncpus is None or pools[0] == ncpus) and all(s_ == "SYS" and b_ == 9 for _, s_, b_ in calls)
        out = f(stack, "SYS", None, pool=PoolStub(2))
        ok = ok and np.array_equal(out, want)
        out = f(stack, "SYS", None, ncpus=4, pool=PoolStub(2))
        ok = ok and np.array_equal(out, want)
    run.exact("misorientation_indices: out[i] == misorientation_index(stack[i], system, bins) in snapshot order, for ncpus in {None,1,3,16} and an external pool [stack lengths 1, 2, 7]", fn, ok, "pool contract A-POOL")


# ----------------------------------------------------------------------------- bounded
def bounded(run):
    cnt = 36 if run.tier == "quick" else 240 * run.tmul
    jobs = [dict(seed=run.seed * 53 + k, count=cnt // 12) for k in range(12)]
    res, errs = native.pmap("contracts.C14", "nat_sweep", jobs, timeout=600)
    run.worker_errors(errs, len(jobs))
    ev = sum(r["evaluations"] for r in res if r and "_error" not in r)
    fails = [f for r in res if r and "_error" not in r for f in r["failures"]]
    for f in [f for f in fails if f.get("known")]:
        kf = [k for k in run.known if k.get("bounded") == f["known"]]
        if kf:
            run.known_hits.append((kf[0], f["what"][:160]))
            fails.remove(f)
    run.bounded_result("real M-index on generated textures: range, grain-order invariance, frame and two-fold invariance where the pinned tree has them, single-orientation and uniform limits, theoretical density integral, no dependence on call history, batched variant with real pools (1..16 workers)",
                       "pydrex.diagnostics.misorientation_index", f"{ev} (system, texture) cases", ev, fails, ev)
    # recorded known findings: fixed witnesses, re-measured
    kn = [k for k in run.known if k.get("bounded", "").startswith("mindex-")]
    if kn:
        res2, errs2 = native.pmap("contracts.C14", "nat_witness", [dict(w=k["witness"]) for k in kn], timeout=600)
        run.worker_errors(errs2, len(kn))
        for k, r in zip(kn, res2):
            if not r or "_error" in r:
                continue
            val, rec, tol = r["value"], k["recorded"], k.get("tol", 2e-3)
            if r.get("holds"):
                run.note(f"known finding no longer observed (stale): {k['bounded']}")
            elif (isinstance(val, str) and val == rec) or (not isinstance(val, str) and not isinstance(rec, str) and abs(val - rec) <= tol):
                run.known_hits.append((k, f"{k['bounded']}: measured {val}"))
            else:
                run.violation(f"known-finding witness changed: {k['bounded']}", "pydrex.diagnostics.misorientation_index",
                              dict(checker="contracts.C14:nat_witness", inputs=dict(w=k["witness"]), what=f"{k['what']} -- recorded {rec}, now {val}: the behaviour at the recorded witness changed"), kind="bounded")


def _texture(kind, n, seed):
    from scipy.spatial.transform import Rotation as R

    if kind == "uniform":
        return R.random(n, random_state=seed).as_matrix()
    if kind == "single":
        return np.array([R.random(random_state=seed).as_matrix()] * n)
    base = R.random(random_state=seed)
    rng = np.random.default_rng(seed)
    return (R.from_rotvec(0.3 * rng.normal(size=(n, 3))) * base).as_matrix()


def nat_witness(w):
    import logging

    logging.disable(logging.CRITICAL)
    from pydrex import diagnostics as D, geometry as g, stats as st
    from scipy.spatial.transform import Rotation as R

    s = getattr(g.LatticeSystem, w["system"])
    try:
        if w["what"] == "integral":
            th = st._max_misorientation(s)
            v = float(sum(st.misorientations_random(i, i + 1, s) for i in range(th)))
            return dict(value=v, holds=abs(v - 1) <= 1e-3)
        O = _texture(w["texture"], w["n"], w["seed"])
        m = float(D.misorientation_index(O, s))
        if w["what"] == "emptyhist":
            empty = bool(np.isnan(m) and np.all(np.isnan(st.misorientation_hist(O, s)[0])))
            return dict(value="nan" if empty else m, holds=not np.isnan(m))
        if w["what"] == "uniform":
            return dict(value=m, holds=m <= 0.12)
        if w["what"] == "single":
            return dict(value=m, holds=abs(m - 1) <= 1e-3)
        if w["what"] == "rotation":
            Q = R.random(random_state=9).as_matrix()
            d = float(D.misorientation_index(O @ Q.T, s)) - m
            return dict(value=d, holds=abs(d) <= 1e-6)
        if w["what"] == "twofold":
            O4 = O.copy(); O4[::2] = np.diag(w["fold"]).astype(float) @ O4[::2]
            d = float(D.misorientation_index(O4, s)) - m
            return dict(value=d, holds=abs(d) <= 1e-6)
    except AssertionError:
        return dict(value="AssertionError", holds=False)
    except Exception as e:
        return dict(value=type(e).__name__, holds=False)
    return dict(value="unknown-witness", holds=False)


ENFORCED_FRAME = {"triclinic"}


def nat_sweep(seed, count):
    import logging

    logging.disable(logging.CRITICAL)
    from pydrex import diagnostics as D, geometry as g, stats as st
    from scipy.spatial.transform import Rotation as R

    rng = np.random.default_rng(seed)
    fails, ev = [], 0
    for it in range(count):
        name = [s for s in SYSTEMS if s != "rhombohedral"][(seed + it) % 5]
        s = getattr(g.LatticeSystem, name)
        kind = ["uniform", "single", "clustered"][it % 3]
        n = int(rng.choice([2, 40, 90]))
        sd = int(rng.integers(1 << 30))
        O = _texture(kind, n, sd)
        ev += 1
        msgs = []
        try:
            m = float(D.misorientation_index(O, s))
            if np.isnan(m) and name in ("tetragonal", "hexagonal") and np.all(np.isnan(st.misorientation_hist(O, s)[0])):
                # recorded finding (input class): every computed misorientation angle exceeds theta_max, the histogram is empty
                fails.append(dict(case=f"{seed}.{it}", checker="contracts.C14:nat_case", inputs=dict(seed=int(seed), it=it, count=count), known="mindex-empty-histogram",
                                  what=f"{name}: all misorientation angles of a {n}-grain texture exceed theta_max, the histogram is empty and the M-index is NaN"))
                continue
            if not (-1e-9 <= m <= 1 + 1e-3):
                msgs.append(f"{name}: M-index {m:.4f} outside [0, 1]")
            msgs.extend(_hist_vs_reference(O, s, name))
            if it % 3 == 1:
                # what symmetry_operations returns is the caller's: emptying it must not change later results
                ops_ = g.symmetry_operations(s)
                if isinstance(ops_, list):
                    del ops_[:]
                if abs(float(D.misorientation_index(O, s)) - m) > 0:
                    msgs.append(f"{name}: the M-index changes after the caller modified the list returned by symmetry_operations (shared state)")
            if it == 0 and (seed % 4 == 0 or count > 3):
                msgs.extend(_large_aggregate(rng, name if name in ("triclinic", "monoclinic") else "triclinic"))
            perm = rng.permutation(n)
            # quaternions are stored as float32: a pair whose angle sits on a bin edge may change bin (1/npairs of the density);
            # two such flips are tolerated, a genuine dependence moves many pairs
            flip_tol = max(1e-9, 2.0 / (n * (n - 1) / 2))
            if abs(float(D.misorientation_index(O[perm], s)) - m) > flip_tol:
                msgs.append(f"{name}: M-index depends on the order of the grains")
            if name in ENFORCED_FRAME:
                Q = R.random(random_state=int(rng.integers(1 << 30))).as_matrix()
                dm = abs(float(D.misorientation_index(O @ Q.T, s)) - m)
                if dm > max(1e-6, flip_tol):
                    msgs.append(f"{name}: M-index of a {kind} texture of {n} grains changes by {dm:.3g} under a rotation of the sample frame")
            if kind == "single" and name in ("triclinic", "monoclinic", "orthorhombic") and abs(m - 1) > 1e-3:
                msgs.append(f"{name}: single-orientation texture gives {m:.4f}, not 1")
            if kind == "uniform" and n >= 90 and name in ("triclinic", "orthorhombic") and m > 0.15:
                msgs.append(f"{name}: uniformly random texture gives {m:.3f}, not close to 0")
            if it % 6 == 0 and name in ("triclinic", "monoclinic", "orthorhombic"):
                th = st._max_misorientation(s)
                integ = float(sum(st.misorientations_random(i, i + 1, s) for i in range(th)))
                if abs(integ - 1) > 1e-3:
                    msgs.append(f"{name}: theoretical random-misorientation density integrates to {integ:.4f}")
            # no dependence on call history: another system in between, then the same value again
            other = getattr(g.LatticeSystem, [x for x in SYSTEMS if x not in (name, "rhombohedral")][it % 4])
            D.misorientation_index(O[: min(n, 12)], other)
            if abs(float(D.misorientation_index(O, s)) - m) > 0:
                msgs.append(f"{name}: value depends on previous calls (after a {other.name} call)")
            O2 = _texture("uniform", 30, 7)
            a1 = float(D.misorientation_index(O2, getattr(g.LatticeSystem, "triclinic")))
            if abs(a1 - _fresh_value()) > 1e-12:
                msgs.append("triclinic reference value differs from the value in a fresh interpreter (hidden state)")
            if it % 9 == 0:
                stack = np.array([_texture("uniform", 12, sd + k) for k in range(5)])
                want = np.array([D.misorientation_index(x, s) for x in stack])
                for ncpus in (1, 3, 16):
                    got = D.misorientation_indices(stack, s, ncpus=ncpus)
                    if not np.array_equal(got, want):
                        msgs.append(f"{name}: batched variant with {ncpus} workers differs from the per-snapshot values / order")
                        break
                import multiprocessing as mp

                with mp.get_context("fork").Pool(2) as pool:
                    got = D.misorientation_indices(stack, s, pool=pool)
                if not np.array_equal(got, want):
                    msgs.append(f"{name}: batched variant with an external pool differs")
        except Exception as e:
            msgs.append(f"{name}: raised {type(e).__name__}: {str(e)[:80]}")
        if msgs:
            fails.append(dict(case=f"{seed}.{it}", checker="contracts.C14:nat_case", inputs=dict(seed=int(seed), it=it, count=count), what="; ".join(msgs[:3])))
    return dict(evaluations=ev, failures=fails[:5])


def _hist_vs_reference(O, s, name):
    """misorientation_hist == density histogram (1 degree bins on [0, theta_max]) of the misorientation angles of ALL unordered
    grain pairs, assembled here from the real callees (symmetry_operations, quat_product, misorientation_angles)."""
    import itertools as it_

    from pydrex import geometry as g, stats as st, utils as u
    from scipy.spatial.transform import Rotation as R

    ops = g.symmetry_operations(s)
    q = R.from_matrix(O.copy()).as_quat()
    pairs = list(it_.combinations(range(len(q)), 2))
    q1 = np.empty((len(pairs), len(ops), 4), dtype=np.float32)
    q2 = np.empty_like(q1)
    for k, (i, j) in enumerate(pairs):
        for c, qs in enumerate(ops):
            if qs.shape == (4, 4):
                q1[k, c], q2[k, c] = qs @ q[i], qs @ q[j]
            else:
                q1[k, c], q2[k, c] = u.quat_product(qs, q[i]), u.quat_product(qs, q[j])
    th = st._max_misorientation(s)
    ref = np.histogram(g.misorientation_angles(q1, q2), bins=th, range=(0, th), density=True)[0]
    got = st.misorientation_hist(O, s)[0]
    if got.shape != ref.shape or not np.allclose(got, ref, rtol=0, atol=1e-12, equal_nan=True):
        return [f"{name}: misorientation_hist of {len(q)} grains differs from the density histogram of all {len(pairs)} pair angles (max difference {np.nanmax(np.abs(got - ref)) if got.shape == ref.shape else 'shape'})"]
    return []


def _large_aggregate(rng, name):
    """An aggregate of several hundred grains (a tight cluster appended to a random texture): same checks at a size where
    chunked / blocked evaluation would matter."""
    from pydrex import diagnostics as D, geometry as g
    from scipy.spatial.transform import Rotation as R

    s = getattr(g.LatticeSystem, name)
    n = int(rng.integers(726, 780)) if rng.random() < 0.6 else int(rng.integers(1030, 1080))
    O = np.concatenate([R.random(n - 26, random_state=int(rng.integers(1 << 30))).as_matrix(), np.array([R.random(random_state=3).as_matrix()] * 26)])
    out = _hist_vs_reference(O, s, name + f" (n={n})")
    m = float(D.misorientation_index(O, s))
    m2 = float(D.misorientation_index(O[rng.permutation(n)], s))
    if abs(m - m2) > max(1e-9, 2.0 / (n * (n - 1) / 2)):
        out.append(f"{name}: M-index of {n} grains depends on the order of the grains ({m:.4f} vs {m2:.4f})")
    return out


_FRESH = {}


def _fresh_value():
    """M-index of a fixed triclinic texture computed in a fresh interpreter (no call history)."""
    if "v" not in _FRESH:
        import os
        import subprocess
        import sys

        code = ("import logging; logging.disable(logging.CRITICAL)\nimport sys; sys.path.insert(0, %r)\nfrom contracts.C14 import _texture\nfrom pydrex import diagnostics as D, geometry as g\n"
                "print(repr(float(D.misorientation_index(_texture('uniform', 30, 7), g.LatticeSystem.triclinic))))" % os.path.dirname(os.path.dirname(os.path.abspath(__file__))))
        out = subprocess.run([sys.executable, "-c", code], capture_output=True, text=True, env=dict(os.environ)).stdout.strip().splitlines()
        _FRESH["v"] = float(out[-1]) if out else float("nan")
    return _FRESH["v"]


def nat_case(seed, it, count):
    r = nat_sweep(seed, count)
    hit = [f for f in r["failures"] if f["case"] == f"{seed}.{it}"]
    return dict(ok=not hit, failures=hit)
